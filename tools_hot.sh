#!/bin/sh
# collects, for every seeded change, the cells of the owning quick check that reported it -> seeded/hot_cells.json
OUT=/verif/seeded/hot_cells.txt
: > $OUT
for d in /verif/seeded/*/; do
  n=$(basename $d); p=$(python3 -c "import json;print(json.load(open('$d/meta.json'))['breaks_property'])")
  case $p in C16|C17|C18|C19|C20) continue;; esac
  SKIP_TESTS=1 /verif/selftest $d/patch.diff $p 2>/dev/null | grep "^  cell=" | sed "s/^  cell=//; s/ monitor=.*//" | sort -u | sed "s/^/$p\t$n\t/" >> $OUT
done
wc -l $OUT
