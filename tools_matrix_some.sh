#!/bin/sh
# tools_matrix_some.sh <seeded-name>...: re-runs the given seeded changes against their owning quick check and merges the
# verdicts into seeded/RESULTS.md and seeded/hot_cells.txt (same format as tools_matrix.sh)
OUT=/verif/seeded/RESULTS.md
HOT=/verif/seeded/hot_cells.txt
for n in "$@"; do
  d=/verif/seeded/$n
  p=$(python3 -c "import json;print(json.load(open('$d/meta.json'))['breaks_property'])")
  SKIP_TESTS=1 /verif/selftest $d/patch.diff $p $MATRIX_ARGS > /tmp/matrix.$$.out 2>/dev/null
  r=$(grep -c "^VIOLATION" /tmp/matrix.$$.out)
  if [ "$r" -gt 0 ]; then res="VIOLATION reported"; else res="MISSED"; fi
  grep -v "^| $n |" $OUT > $OUT.tmp2; echo "| $n | $p | $res |" >> $OUT.tmp2; (head -2 $OUT.tmp2; tail -n +3 $OUT.tmp2 | sort) > $OUT; rm -f $OUT.tmp2
  grep -v "	$n	" $HOT > $HOT.tmp2
  case $p in C16|C17|C18|C19|C20) ;; *) grep "^  cell=" /tmp/matrix.$$.out | sed "s/^  cell=//; s/ monitor=.*//" | sort -u | sed "s/^/$p\t$n\t/" >> $HOT.tmp2;; esac
  mv $HOT.tmp2 $HOT
  echo "$n $p $res"
done
rm -f /tmp/matrix.$$.out
