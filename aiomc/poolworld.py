"""Closed scenario around one (or more) real task pools on a virtual loop (DESIGN.md 3.2/3.3).

The world owns: workers (gated), callbacks, argument iterables, actors (straight-line
programs over the public pool API) and the records the monitors read.  Monitors only use
the public pool API and these records.
"""
import asyncio
import collections
import functools
from asyncio import coroutines as _acoro

from asyncio_taskpool import SimpleTaskPool, TaskPool
from asyncio_taskpool import exceptions as X

from . import vloop
from .vloop import fresh_loop, release_loop, teardown_loop

INF = float("inf")
vloop.install_gather_wrapper()

SYNC_OPS = {
    "apply", "map", "start", "cancel", "cancel_group", "cancel_all", "stop", "stop_all",
    "lock", "unlock", "set_size", "probe_capacity", "probe_cancel", "probe_reject", "noop", "cancel_op", "new_pool",
}
CORO_OPS = {"flush", "gac", "until_closed"}


class WorkerError(Exception):
    def __init__(self, tag):
        super().__init__(tag)
        self.tag = ("worker", tag)


class CallFault(Exception):
    def __init__(self, tag):
        super().__init__(tag)
        self.tag = ("call", tag)


class CallTypeFault(TypeError):
    """what a signature mismatch at the call site raises"""

    def __init__(self, tag):
        super().__init__(tag)
        self.tag = ("call", tag)


class CbError(Exception):
    def __init__(self, tag):
        super().__init__(tag)
        self.tag = ("cb", tag)


def size_of(v):
    return INF if v in ("inf", None) else v


def split_op(op):
    if isinstance(op[-1], dict):
        return op[0], list(op[1:-1]), op[-1]
    return op[0], list(op[1:]), {}


class Req:
    __slots__ = ("tag", "kind", "p", "group", "num", "nc", "stars", "opts", "args", "kwargs", "func")

    def __init__(self, **kw):
        for k in self.__slots__:
            setattr(self, k, kw.get(k))

    def __canon__(self):
        return (self.tag, self.kind, self.p, self.group, self.num, self.nc, self.stars)


class PoolWorld:
    def __init__(self, scen, ctl, monitor_factories=()):
        self.scen = scen
        self.ctl = ctl
        self.dead = False
        self.loop = fresh_loop()
        self.viol = []
        self.gates = {}
        self.started = {}  # key -> (tag, args, kwargs)
        self.task_names = {}  # key -> task name seen by the worker
        self.exited = {}  # key -> 'ret' | 'exc' | 'cancelled'
        self.cancel_seen = collections.Counter()
        self.cb_begun = collections.Counter()  # (which, key) -> n
        self.cb_done = collections.Counter()
        self.cb_interrupted = collections.Counter()
        self.cb_open = 0
        self.reqs = {}  # tag -> Req
        self.pulled = collections.Counter()
        self.calls = collections.Counter()
        self.skipped = {}  # tag -> set of call indices that raised
        self.group_cancelled = set()  # tags whose group was cancelled (cancel_group / cancel_all)
        self.created = {}  # tag -> set of ids seen in get_group_ids
        self.results = {}  # (actor, pc) -> outcome
        self.drivers = {}
        self.pcs = [0] * len(scen["actors"])
        self.terminated = False  # set by terminal-branch ops
        self.probing = False
        self.bad_names = []
        self.dup_keys = []
        self.cb_mismatch = []
        self.start_seq = 0
        self.start_order = {}  # key -> sequence number of worker start
        self.cancel_targets = set()  # keys a cancel-type op was aimed at (harness knowledge)
        self.closed_pools = set()
        self.closing = set()  # pools on which gather_and_close() has been called
        self.flushes_begun = collections.Counter()
        self.locked_pools = set()  # harness knowledge: pools on which lock()/gather_and_close() was called last
        self.flush_covered = set()  # keys whose worker had exited when some flush() of their pool was called
        self.resized = set()  # pools whose size was re-assigned during the scenario
        self.cancelled_ops = set()  # (actor, pc) of coroutine ops whose caller was cancelled by the harness
        self.slow_ids = scen.get("slow_ids")
        self.inline = scen.get("inline") or {}
        self.live = collections.Counter()
        self.pools = []
        self.cfg_size = []
        self.pname = {}
        self.named_pools = set()  # pools given an explicit name
        self.simple_reqs = {}
        for p, spec in enumerate(scen["pools"]):
            size = size_of(spec.get("size", "inf"))
            kw = {}
            if spec.get("name") is not None:
                kw["name"] = spec["name"]
            if spec.get("cls", "TaskPool") == "SimpleTaskPool":
                tag = f"S{p}"
                args, kwargs = self._mk_args(tag, spec.get("args"), spec.get("kwargs", 0))
                func = self._make_func(tag, spec.get("worker", "plain"), spec.get("fault"))
                ckw = dict(kw)
                if args is not None:
                    ckw["args"] = args
                if kwargs is not None:
                    ckw["kwargs"] = kwargs
                pool = SimpleTaskPool(
                    func,
                    end_callback=self._make_cb("ecb", spec.get("ecb", scen.get("ecb", "none")), p, tag),
                    cancel_callback=self._make_cb("ccb", spec.get("ccb", scen.get("ccb", "none")), p, tag),
                    pool_size=size,
                    **ckw,
                )
                self.simple_reqs[p] = Req(tag=tag, kind="simple", p=p, args=args, kwargs=kwargs, func=func)
            else:
                pool = TaskPool(pool_size=size, **kw)
            self.pools.append(pool)
            self.cfg_size.append(size)
            self.pname.setdefault(str(pool), p)
            if spec.get("name") is not None:
                self.named_pools.add(p)
        self.pool = self.pools[0]
        self.monitors = [f(self) for f in monitor_factories]

    # ------------------------------------------------------------------ helpers
    def v(self, prop, key, *detail):
        if not self.probing:
            self.viol.append((prop, key) + detail)

    def cur_key(self, tag=None):
        name = asyncio.current_task().get_name()
        try:
            pname, tid = name.rsplit("_Task-", 1)
            # the pool a worker runs in is known from its request (two pools may legally carry the same name);
            # the task name is only the fallback
            p = None
            if tag in self.reqs:
                p = self.reqs[tag].p
            else:
                for sp, r in self.simple_reqs.items():
                    if r.tag == tag:
                        p = sp
            if p is None or str(self.pools[p]) != pname:
                p = self.pname[pname]
            return (p, int(tid)), name
        except (ValueError, KeyError):
            self.bad_names.append(name)
            return (-1, len(self.bad_names)), name

    def _mk_args(self, tag, nargs, kwshape):
        args = None if nargs is None else tuple(("arg", tag, i) for i in range(nargs))
        if kwshape is None:
            kwargs = None
        elif kwshape == 0:
            kwargs = {}
        else:
            kwargs = {f"k{i}": ("kw", tag, i) for i in range(kwshape)}
        return args, kwargs

    def closed(self, p=0):
        """Harness knowledge only: a gather_and_close() driver on pool p completed normally."""
        return p in self.closed_pools

    # ------------------------------------------------------------------ user code
    def _make_worker(self, tag, variant):
        w = self

        async def work(*args, **kwargs):
            key, name = w.cur_key(tag)
            if key in w.started:
                w.dup_keys.append(key)
            w.started[key] = (tag, args, kwargs)
            w.task_names[key] = name
            w.start_seq += 1
            w.start_order[key] = w.start_seq
            w.live[key[0]] += 1
            how = "ret"
            try:
                w.point("w_start", key, tag)
                if variant == "instant":
                    return ("done", tag)
                if variant == "retexc":
                    return ValueError("returned as a value, never raised")
                if variant == "yield":
                    try:
                        await asyncio.sleep(0)  # a zero-length suspension
                    except asyncio.CancelledError:
                        w.cancel_seen[key] += 1
                        w.point("w_cancel", key, tag)
                        how = "cancelled"
                        raise
                    w.point("w_yielded", key, tag)
                stage = 0
                while True:
                    f = w.loop.create_future()
                    gk = ("w", key[0], key[1], stage)
                    w.gates[gk] = f
                    try:
                        out = await f
                    except asyncio.CancelledError:
                        w.cancel_seen[key] += 1
                        w.point("w_cancel", key, tag)
                        if variant == "absorb" and stage == 0:
                            stage = 1
                            continue
                        how = "cancelled"
                        raise
                    finally:
                        w.gates.pop(gk, None)
                    w.point("w_resume", key, tag)
                    if out == "exc":
                        how = "exc"
                        raise WorkerError(tag)
                    return ("done", tag)
            finally:
                w.live[key[0]] -= 1
                w.exited[key] = how

        return work

    def _make_func(self, tag, variant, fault):
        work = self._make_worker(tag, variant)
        if fault is None:
            return work
        w = self
        # entries: n -> call n raises CallFault;  ["T", n] -> call n raises a TypeError
        type_faults = {f[1] for f in fault if isinstance(f, list)}
        fault = {f for f in fault if not isinstance(f, list)} | type_faults
        self.skipped.setdefault(tag, set())

        def call(*a, **k):
            n = w.calls[tag]
            w.calls[tag] += 1
            w.point("call", None, tag)
            if n in fault:
                w.skipped[tag].add(n)
                raise (CallTypeFault if n in type_faults else CallFault)(tag)
            return work(*a, **k)

        call._is_coroutine = _acoro._is_coroutine
        call.__name__ = "work"
        call.__qualname__ = "flagged_work"
        return call

    def _is_slow(self, which, key):
        s = self.slow_ids
        if s is None:
            return True
        return [which, key[0], key[1]] in s or [key[0], key[1]] in s or key[1] in s

    def _make_cb(self, which, kind, p, tag):
        w = self
        if kind == "none":
            return None

        def enter(i):
            key = (p, i)
            nm = asyncio.current_task().get_name()
            if nm != f"{w.pools[p]}_Task-{i}":
                w.cb_mismatch.append((which, i, nm))
            w.cb_begun[(which, key)] += 1
            w.cb_open += 1
            w.point(which, key, tag)
            return key

        def leave(key):
            w.cb_open -= 1
            w.cb_done[(which, key)] += 1

        def plain(i):
            key = enter(i)
            leave(key)

        async def coro(i):
            key = enter(i)
            leave(key)

        async def slow(i):
            key = enter(i)
            try:
                if w._is_slow(which, key):
                    f = w.loop.create_future()
                    gk = (which, key[0], key[1], 0)
                    w.gates[gk] = f
                    try:
                        await f
                    finally:
                        w.gates.pop(gk, None)
                    w.point(which + "_resume", key, tag)
            except BaseException:
                # the callback was interrupted (something was thrown into it): it did not run to completion
                w.cb_open -= 1
                w.cb_interrupted[(which, key)] += 1
                raise
            leave(key)

        def raising(i):
            key = enter(i)
            leave(key)
            if w._is_slow(which, key):
                raise CbError((which, tag))

        async def araising(i):
            key = enter(i)
            leave(key)
            if w._is_slow(which, key):
                raise CbError((which, tag))

        def retfut(i):
            key = enter(i)
            fut = asyncio.ensure_future(w.pools[p].flush(return_exceptions=True))
            leave(key)
            return fut

        def plain2(extra, i):
            key = enter(i)
            leave(key)

        def raising2(extra, i):
            key = enter(i)
            leave(key)
            if w._is_slow(which, key):
                raise CbError((which, tag))

        async def araising2(extra, i):
            key = enter(i)
            leave(key)
            if w._is_slow(which, key):
                raise CbError((which, tag))

        async def coro2(extra, i):
            key = enter(i)
            leave(key)

        class _Holder:
            def __canon__(self_):
                return ("holder", which, p, tag)

            def sync_method(self_, i):
                key = enter(i)
                leave(key)

            async def async_method(self_, i):
                key = enter(i)
                leave(key)

        holder = _Holder()
        table = {
            "method": holder.sync_method,
            "amethod": holder.async_method,
            "plain": plain,
            "retfut": retfut,
            "coro": coro,
            "slow": slow,
            "raise": raising,
            "araise": araising,
            "praise": functools.partial(raising2, "x"),
            "apraise": functools.partial(araising2, "x"),
            "partial": functools.partial(plain2, "x"),
            "apartial": functools.partial(coro2, "x"),
        }
        return table[kind]

    def _make_iter(self, req):
        w = self
        tag, n, stars = req.tag, req.num, req.stars

        def gen():
            for j in range(n):
                w.point("iter", None, tag)
                w.pulled[tag] += 1
                el = ("el", tag, j)
                if stars == 0:
                    yield el
                elif stars == 1:
                    yield (el, "p1")
                else:
                    yield {"x": el, "k": "v"}

        return gen()

    def _mon(self, method, *args):
        """Monitor code that runs inside a loop step (i.e. inside library/user code): an exception there must not
        leak into the code under test - it is a harness error."""
        for m in self.monitors:
            try:
                getattr(m, method)(*args)
            except Exception as e:  # noqa: BLE001
                import traceback

                self.viol.append(("HARNESS", f"monitor {type(m).__name__}.{method} raised {type(e).__name__}: {e}",
                                  traceback.format_exc()[-600:]))

    # ------------------------------------------------------------------ points
    def point(self, kind, key, tag):
        """A place where the pool has called harness-owned user code."""
        if self.dead or self.probing:
            return
        self.snapshot_created()
        self._mon("sample", kind, key, tag)
        inl = self.inline
        if not inl or kind not in inl.get("at", ()):
            return
        cands = []
        for i in inl.get("actors", ()):
            if i in self.drivers or self.pcs[i] >= len(self.scen["actors"][i]):
                continue
            op = self.scen["actors"][i][self.pcs[i]]
            if op[0] not in SYNC_OPS or not self.op_enabled(i, op):
                continue
            if kind == "iter" and self._reentrant_iter_cancel(op, tag):
                continue
            cands.append(i)
        if not cands:
            return
        ch = self.ctl.choose(1 + len(cands), free=False)
        if ch:
            i = cands[ch - 1]
            self.ctl.actions.append(f"  inline@{kind}{key or ''}: " + self.describe(("op", i)))
            self.run_actor_op(i)

    def _reentrant_iter_cancel(self, op, tag):
        name, pos, _ = split_op(op)
        if name == "cancel_all":
            return True
        if name == "cancel_group" and pos and pos[0] == tag:
            return True
        return False

    # ------------------------------------------------------------------ explorer interface
    def idle(self):
        return not self.loop._ready

    def ready(self):
        timers = [h for h in self.loop._scheduled if not h._cancelled]
        return list(self.loop._ready) + timers if timers else self.loop._ready

    def roots(self):
        tasks = sorted(self.loop.live_tasks(), key=lambda t: t.get_name())
        return [tasks, self.pools, self]

    def __canon__(self):
        return (
            sorted(self.gates.items()),
            sorted(self.started.items()),
            sorted(self.exited.items()),
            sorted(self.cancel_seen.items()),
            sorted(self.cb_begun.items()),
            sorted(self.cb_done.items()),
            sorted(self.cb_interrupted.items()),
            self.cb_open,
            sorted(self.reqs.items()),
            sorted(self.pulled.items()),
            sorted(self.calls.items()),
            sorted((k, sorted(v)) for k, v in self.skipped.items()),
            sorted(self.group_cancelled),
            sorted((k, sorted(v)) for k, v in self.created.items()),
            sorted(self.results.items()),
            sorted(self.drivers.items()),
            tuple(self.pcs),
            self.terminated,
            tuple(self.cfg_size),
            sorted(self.live.items()),
            len(self.viol), len(self.dup_keys), len(self.bad_names),
            sorted(self.start_order.items()),
            sorted(self.cancel_targets),
            sorted(self.closed_pools), sorted(self.closing), sorted(self.flushes_begun.items()), sorted(self.flush_covered), sorted(self.locked_pools), sorted(self.cancelled_ops), sorted(self.resized),
            [m.__canon__() for m in self.monitors],
        )

    def observation(self):
        return repr((
            sorted(self.results.items()),
            sorted(self.exited.items()),
            sorted((k, (v[0],)) for k, v in self.started.items()),
            sorted(self.cb_done.items()),
            sorted(self.pulled.items()),
        ))

    def release(self):
        self.dead = True
        self.probing = True
        teardown_loop(self.loop)

    def snapshot_created(self):
        for tag, req in self.reqs.items():
            if tag in self.group_cancelled or req.group is None:
                continue
            try:
                ids = self.pools[req.p].get_group_ids(req.group)
            except X.InvalidGroupName:
                continue
            self.created.setdefault(tag, set()).update(ids)

    def all_created(self, p=0):
        out = set()
        for tag, ids in self.created.items():
            if self.reqs[tag].p == p:
                out |= ids
        out |= {k[1] for k in self.started if k[0] == p}
        return out

    def boundary(self):
        if self.terminated:
            return []
        self.snapshot_created()
        for m in self.monitors:
            m.sample("boundary", None, None)
        if self.idle():
            for m in self.monitors:
                m.idle()
            if self.cb_open == 0:
                for m in self.monitors:
                    m.quiet_idle()
        return self.enabled()

    def enabled(self):
        acts = []
        if self.loop._ready:
            acts.append(("step",))
        for i, prog in enumerate(self.scen["actors"]):
            if i in self.drivers:
                if self.drivers[i].done():
                    del self.drivers[i]
                else:
                    continue
            if self.pcs[i] < len(prog) and self.op_enabled(i, prog[self.pcs[i]]):
                acts.append(("op", i))
        outcomes = self.scen.get("outcomes", ["ret"])
        for gk in sorted(self.gates):
            if self.gates[gk].done():
                continue
            if gk[0] == "w":
                for out in outcomes:
                    acts.append(("fin", gk, out))
            else:
                acts.append(("fin", gk, "ret"))
        return acts

    def describe(self, act):
        if act[0] == "op":
            i = act[1]
            return f"op[{i}] " + repr(self.scen["actors"][i][self.pcs[i]])
        if act[0] == "fin":
            return f"fin{act[1]}={act[2]}"
        return "step"

    def do(self, act):
        if act[0] == "step":
            self.loop.step()
        elif act[0] == "fin":
            self.gates[act[1]].set_result(act[2])
        else:
            self.run_actor_op(act[1])

    def terminal(self):
        for m in self.monitors:
            m.terminal()
        if not self.viol:
            # probes disturb the world: only after every monitor has looked at the terminal state
            for m in self.monitors:
                m.terminal_probe()

    # ------------------------------------------------------------------ ops
    def resolve_id(self, spec, p=0):
        if isinstance(spec, int):
            return spec
        if spec[0] == "req":
            ids = sorted(self.created.get(spec[1], ()))
            if spec[2] < len(ids):
                return ids[spec[2]]
            return None
        raise ValueError(spec)

    def op_enabled(self, i, op):
        name, pos, opts = split_op(op)
        after = opts.get("after")
        if after is not None:
            # "after": [actor, pc]  - enabled once that actor has executed `pc` ops
            if self.pcs[after[0]] < after[1] or after[0] in self.drivers and opts.get("after_done"):
                return False
        nc = opts.get("needs_cancelled")
        if nc is not None and nc not in self.group_cancelled:
            return False
        if name == "cancel":
            return all(self.resolve_id(s) is not None for s in pos)
        if name == "cancel_group":
            g = pos[0]
            if g.startswith("?"):
                return True
            return g in self.reqs and g not in self.group_cancelled
        if name == "cancel_op":
            return pos[0] in self.drivers and not self.drivers[pos[0]].done()
        if name == "probe_capacity":
            return self.idle() and self.cb_open == 0 and not self.drivers
        when = opts.get("when")
        if when == "quiet_idle":
            return self.idle() and self.cb_open == 0
        return True

    def raised(self, out, cls):
        return out[0] == "raised" and isinstance(self.last_exc, cls)

    def run_actor_op(self, i):
        self.last_exc = None
        pc = self.pcs[i]
        op = self.scen["actors"][i][pc]
        self.pcs[i] += 1
        self.snapshot_created()
        for m in self.monitors:
            m.before_op(i, op)
        out = self.run_op(i, pc, op)
        if out is not None:
            self.results[(i, pc)] = out
            self.snapshot_created()
            for m in self.monitors:
                m.after_op(i, op, out)

    def _cb_kinds(self, opts):
        return (opts.get("ecb", self.scen.get("ecb", "none")), opts.get("ccb", self.scen.get("ccb", "none")))

    KNOWN_OPS = SYNC_OPS | CORO_OPS

    def run_op(self, i, pc, op):
        name, pos, opts = split_op(op)
        if not isinstance(name, str) or name not in self.KNOWN_OPS:
            raise RuntimeError(f"malformed scenario: unknown op {op!r}")
        p = opts.get("p", 0)
        pool = self.pools[p]
        if name in ("probe_capacity", "probe_cancel", "probe_reject"):
            # terminal-branch probes run the monitors' own code: their exceptions are harness errors, never op outcomes
            self.terminated = True
            for m in self.monitors:
                if name == "probe_capacity":
                    m.probe(p)
                else:
                    getattr(m, name)(p, *pos)
            return ("ok",)
        try:
            if name == "apply":
                tag, num = pos
                ek, ck = self._cb_kinds(opts)
                args, kwargs = self._mk_args(tag, opts.get("args", 1), opts.get("kwargs", None))
                func = self._make_func(tag, opts.get("worker", self.scen.get("worker", "plain")), opts.get("fault"))
                if opts.get("plainfunc"):
                    func = lambda *a, **k: None  # noqa: E731
                if opts.get("partial"):
                    # func is a functools.partial freezing a keyword that the request's kwargs also carry:
                    # the request's value must win, as in partial(f, k=a)(k=b)
                    parg = ("parg", tag)
                    func = functools.partial(func, parg, k0=("frozen", tag))
                    args = (parg,) + (args or ())
                kw = {}
                if args is not None and not opts.get("partial") and opts.get("argsform") == "view":
                    kw["args"] = dict(enumerate(args)).values()  # a legal iterable that is not a Sequence
                elif args is not None and not opts.get("partial") and opts.get("argsform") == "set":
                    kw["args"] = set(args)
                elif args is not None and not opts.get("partial"):
                    kw["args"] = args
                elif opts.get("partial") and len(args) > 1:
                    kw["args"] = args[1:]
                if kwargs is not None:
                    kw["kwargs"] = kwargs
                if opts.get("name") is not None:
                    kw["group_name"] = opts["name"]
                req = Req(tag=tag, kind="apply", p=p, num=num, opts=opts, args=args, kwargs=kwargs, func=func)
                g = pool.apply(
                    func, num=num,
                    end_callback=self._make_cb("ecb", ek, p, tag),
                    cancel_callback=self._make_cb("ccb", ck, p, tag),
                    **kw,
                )
                req.group = g
                self.reqs[tag] = req
                return ("ok", g)
            if name == "map":
                tag, n, nc = pos
                ek, ck = self._cb_kinds(opts)
                stars = opts.get("stars", 0)
                func = self._make_func(tag, opts.get("worker", self.scen.get("worker", "plain")), opts.get("bad"))
                if opts.get("plainfunc"):
                    func = lambda *a, **k: None  # noqa: E731
                req = Req(tag=tag, kind="map", p=p, num=n, nc=nc, stars=stars, opts=opts, func=func)
                meth = (pool.map, pool.starmap, pool.doublestarmap)[stars]
                kw = {}
                if opts.get("name") is not None:
                    kw["group_name"] = opts["name"]
                g = meth(
                    func, self._make_iter(req), num_concurrent=nc,
                    end_callback=self._make_cb("ecb", ek, p, tag),
                    cancel_callback=self._make_cb("ccb", ck, p, tag),
                    **kw,
                )
                req.group = g
                self.reqs[tag] = req
                return ("ok", g)
            if name == "start":
                tag, num = pos
                base = self.simple_reqs[p]
                req = Req(tag=tag, kind="start", p=p, num=num, opts=opts, args=base.args, kwargs=base.kwargs, func=base.func)
                g = pool.start(num)
                req.group = g
                self.reqs[tag] = req
                return ("ok", g)
            mkw = {"msg": opts["msg"]} if "msg" in opts else {}
            if name == "cancel":
                ids = [self.resolve_id(s) for s in pos]
                pool.cancel(*ids, **mkw)
                self.cancel_targets.update((p, t) for t in ids)
                return ("ok", tuple(ids))
            if name == "cancel_group":
                g = pos[0]
                if g.startswith("?"):
                    pool.cancel_group(g[1:])
                    return ("ok",)
                req = self.reqs[g]
                targets = {(p, t) for t in self.created.get(g, ())}
                pool.cancel_group(req.group, **mkw)
                self.group_cancelled.add(g)
                self.cancel_targets |= targets
                return ("ok",)
            if name == "cancel_all":
                tags = [t for t, r in self.reqs.items() if r.p == p and t not in self.group_cancelled]
                targets = {(p, t) for g in tags for t in self.created.get(g, ())}
                pool.cancel_all(**mkw)
                self.group_cancelled.update(tags)
                self.cancel_targets |= targets
                return ("ok",)
            if name == "stop":
                ids = pool.stop(pos[0])
                self.cancel_targets.update((p, t) for t in ids)
                return ("ok", tuple(ids))
            if name == "stop_all":
                ids = pool.stop_all()
                self.cancel_targets.update((p, t) for t in ids)
                return ("ok", tuple(ids))
            if name == "lock":
                pool.lock()
                self.locked_pools.add(p)
                return ("ok",)
            if name == "unlock":
                pool.unlock()
                self.locked_pools.discard(p)
                return ("ok",)
            if name == "set_size":
                v = size_of(pos[0]) if pos[0] != -1 else -1
                in_flight = self.live[p] > 0 or self.cb_open > 0 or not self.idle() or any(
                    r.p == p and t not in self.group_cancelled
                    and len(self.created.get(t, ())) + len(self.skipped.get(t, ())) < (r.num or 0)
                    for t, r in self.reqs.items())
                pool.pool_size = v
                self.cfg_size[p] = v
                if in_flight:
                    self.resized.add(p)  # C01 speaks about a size that is fixed while tasks are in flight
                return ("ok",)
            if name == "noop":
                return ("ok",)
            if name == "cancel_op":
                # the caller of a pending flush()/... is cancelled (what asyncio.wait_for does on timeout)
                self.drivers[pos[0]].cancel()
                self.cancelled_ops.add((pos[0], self.pcs[pos[0]] - 1))
                return ("ok",)
            if name == "new_pool":
                spec = pos[0] if pos else {}
                kw = {"name": spec["name"]} if spec.get("name") is not None else {}
                np_ = TaskPool(pool_size=size_of(spec.get("size", "inf")), **kw)
                self.pools.append(np_)
                if spec.get("name") is not None:
                    self.named_pools.add(len(self.pools) - 1)
                self.cfg_size.append(size_of(spec.get("size", "inf")))
                self.pname.setdefault(str(np_), len(self.pools) - 1)
                return ("ok", str(np_))
            if name == "probe_capacity":
                self.terminated = True
                for m in self.monitors:
                    m.probe(p)
                return ("ok",)
            if name in ("probe_cancel", "probe_reject"):
                self.terminated = True
                for m in self.monitors:
                    getattr(m, name)(p, *pos)
                return ("ok",)
            if name in CORO_OPS:
                if name == "flush":
                    coro = pool.flush(*pos)
                    self.flushes_begun[p] += 1
                    self.flush_covered |= {k for k in self.exited if k[0] == p}
                elif name == "gac":
                    coro = pool.gather_and_close(*pos)
                    self.closing.add(p)
                    self.locked_pools.add(p)  # gather_and_close() locks the pool
                else:
                    coro = pool.until_closed()
                self.drivers[i] = asyncio.Task(
                    self._drv(i, pc, op, coro), loop=self.loop, eager_start=True, name=f"drv{i}.{pc}"
                )
                self.loop.tasks.append(self.drivers[i])
                if self.drivers[i].done():
                    del self.drivers[i]
                return None
            raise ValueError(f"unknown op {op!r}")
        except Exception as e:  # the op itself raised: that is its outcome
            self.last_exc = e
            return ("raised", type(e).__name__)

    async def _drv(self, i, pc, op, coro):
        try:
            r = await coro
            out = ("ok", r if isinstance(r, (bool, int, str, type(None))) else type(r).__name__)
        except asyncio.CancelledError:
            out = ("raised", "CancelledError", None)
        except Exception as e:
            out = ("raised", type(e).__name__, getattr(e, "tag", None))
        if self.dead:
            return
        if op[0] == "gac" and out[0] == "ok":
            self.closed_pools.add(split_op(op)[2].get("p", 0))
        self.results[(i, pc)] = out
        self.snapshot_created()
        self._mon("driver_done", i, op, out)

    # ------------------------------------------------------------------ probes (public API only)
    def classify(self, key):
        """Classification probe for an id whose worker has exited (or that was never issued).

        pool.cancel(id) never succeeds for such ids, so the exception type classifies the id
        without side effects.
        """
        try:
            self.pools[key[0]].cancel(key[1])
        except X.AlreadyCancelled:
            return "cancelled"
        except X.AlreadyEnded:
            return "ended"
        except X.InvalidTaskID:
            return "unknown"
        return "running"

    def run_capacity_probe(self, p, want):
        """Terminal: request `want`+1 gated probe tasks, run to idle, count how many started."""
        pool = self.pools[p]
        self.probing = True
        n0 = len(self.started)
        pool.unlock()
        work = self._make_worker("probe", "plain")
        self.loop.run_idle()
        if isinstance(pool, SimpleTaskPool):
            pool.start(want + 1)
        else:
            pool.apply(work, num=want + 1)
        self.loop.run_idle()
        got = len(self.started) - n0
        self.probing = False
        return got


class Monitor:
    PROP = "?"

    def __init__(self, world):
        self.w = world

    def v(self, key, *detail):
        self.w.v(self.PROP, key, *detail)

    def sample(self, kind, key, tag):
        pass

    def idle(self):
        pass

    def quiet_idle(self):
        pass

    def before_op(self, i, op):
        pass

    def after_op(self, i, op, out):
        pass

    def driver_done(self, i, op, out):
        pass

    def probe(self, p):
        pass

    def terminal(self):
        pass

    def terminal_probe(self):
        pass

    def probe_cancel(self, p, *a):
        pass

    def probe_reject(self, p, *a):
        pass

    def __canon__(self):
        return ()
