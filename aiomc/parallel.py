"""Intra-cell parallel exploration: N forked workers share one visited-fingerprint table.

Same transition relation and same pruning rule as explorer.explore(mode='full'); only the
bookkeeping differs: the visited set is a shared open-addressing table of 64-bit fingerprints,
the DFS stack is per worker with hand-off of prefixes through a shared queue when others starve.
Races on the table are benign by construction: a lost or duplicated insert can only cause a
state to be expanded twice, never to be skipped.
"""
import ctypes
import hashlib
import marshal
import multiprocessing as mp
import queue as _q
import time
import traceback

from .canon import Unknown, canon_state
from .explorer import Ctl, Stats

TABLE_BITS = 23


def digest64(canon):
    h = int.from_bytes(hashlib.blake2b(marshal.dumps(canon, 2), digest_size=8).digest(), "little")
    return h or 1


class SharedVisited:
    def __init__(self, table, mask):
        self.t = table
        self.mask = mask
        self.inserted = 0

    def add_if_new(self, h):
        t = self.t
        mask = self.mask
        i = h & mask
        n = 0
        while True:
            v = t[i]
            if v == h:
                return False
            if v == 0:
                t[i] = h
                self.inserted += 1
                return True
            i = (i + 1) & mask
            n += 1
            if n > 1 << 16:
                raise RuntimeError("visited table full")


def _execute(World, scen, prefix, visited, stats, max_len=2000):
    ctl = Ctl(prefix)
    w = World(scen, ctl)
    terminal = False
    depth = 0
    try:
        while True:
            acts = w.boundary()
            if w.viol:
                break
            if not acts:
                terminal = True
                break
            if ctl.beyond():
                try:
                    h = digest64(canon_state(w.ready(), w.roots()))
                except Unknown:
                    h = None  # never merged (see explorer.execute)
                    stats.unhashable += 1
                if h is not None and not visited.add_if_new(h):
                    stats.pruned += 1
                    break
            ch = ctl.choose(len(acts), free=w.idle())
            act = acts[ch]
            ctl.actions.append(w.describe(act))
            w.do(act)
            stats.transitions += 1
            depth += 1
            if depth > max_len:
                w.viol.append(("HARNESS", "execution too long", depth))
                break
        if terminal:
            w.terminal()
            stats.terminals += 1
    finally:
        w.release()
    stats.executions += 1
    stats.max_depth = max(stats.max_depth, depth)
    return w, ctl, terminal


def _worker(wid, cell, table, mask, workq, resq, pending, stop, hungry, deadline):
    try:
        from .runner import world_factory

        World = world_factory(cell)
        scen = cell["scen"]
        visited = SharedVisited(table, mask)
        stats = Stats()
        local = []
        obs = set()
        viols = []
        sample = None
        while True:
            if stop.value:
                break
            if not local:
                try:
                    local.append(workq.get(timeout=0.05))
                    with hungry.get_lock():
                        hungry.value = max(0, hungry.value - 1)
                except _q.Empty:
                    if pending.value <= 0:
                        break
                    with hungry.get_lock():
                        hungry.value = min(64, hungry.value + 1)
                    continue
            prefix = local.pop()
            w, ctl, terminal = _execute(World, scen, prefix, visited, stats)
            if terminal and not w.viol:
                obs.add(w.observation())
                if sample is None:
                    sample = list(ctl.actions)
            if w.viol:
                v = w.viol[0]
                if not any(x["key"] == v[1] for x in viols):
                    viols.append({"prop": v[0], "key": v[1], "detail": repr(v[2:]), "choices": list(ctl.choices), "actions": list(ctl.actions)})
                if v[1] not in cell.get("known_keys", ()):
                    stop.value = 1
            children = []
            for i in range(len(prefix), len(ctl.points)):
                n, free = ctl.points[i]
                for alt in range(1, n):
                    children.append(ctl.choices[:i] + [alt])
            children.reverse()
            with pending.get_lock():
                pending.value += len(children) - 1
            local.extend(children)
            # hand the shallowest prefixes (largest subtrees) to starving workers,
            # keep the rest for local depth-first search
            while hungry.value > 0 and len(local) > 1:
                workq.put(local.pop(0))
                with hungry.get_lock():
                    hungry.value = max(0, hungry.value - 1)
            if deadline is not None and time.time() > deadline:
                stop.value = 2
                break
        st = stats.as_dict()
        st["states"] = visited.inserted
        resq.put(("done", wid, st, list(obs), viols, sample))
    except Exception as e:
        stop.value = 3
        resq.put(("error", wid, f"{type(e).__name__}: {e}", traceback.format_exc()))


def explore_parallel(cell, nworkers=16, deadline=None):
    ctx = mp.get_context("fork")
    size = 1 << TABLE_BITS
    table = ctx.RawArray(ctypes.c_uint64, size)
    workq = ctx.Queue()
    resq = ctx.Queue()
    pending = ctx.Value("q", 1)
    stop = ctx.Value("i", 0)
    hungry = ctx.Value("i", 0)
    workq.put([])
    t0 = time.time()
    procs = [
        ctx.Process(target=_worker, args=(i, cell, table, size - 1, workq, resq, pending, stop, hungry, deadline))
        for i in range(nworkers)
    ]
    for p in procs:
        p.start()
    results = []
    errors = []
    for _ in procs:
        r = resq.get()
        if r[0] == "error":
            errors.append(r)
        else:
            results.append(r)
    for p in procs:
        p.join(timeout=5)
        if p.is_alive():
            p.terminate()
    # drain
    try:
        while True:
            workq.get_nowait()
    except _q.Empty:
        pass
    tot = Stats().as_dict()
    obs = set()
    viols = []
    sample = None
    for _, wid, st, o, v, smp in results:
        for k in tot:
            if k == "max_depth":
                tot[k] = max(tot[k], st[k])
            else:
                tot[k] += st[k]
        obs.update(o)
        viols += v
        sample = sample or smp
    # exact number of distinct fingerprints (racing inserts are counted twice by the workers)
    tot["states"] = len(set(table)) - 1
    out = {
        "name": cell["name"],
        "stats": tot,
        "violations": list({x["key"]: x for x in reversed(viols)}.values())[:6],
        "observations": len(obs),
        "complete": stop.value == 0 and not errors,
        "samples": [sample] if sample else [],
        "wall": time.time() - t0,
        "parallel_workers": nworkers,
    }
    if errors:
        out["error"] = errors[0][2]
        out["trace"] = errors[0][3]
    return out
