"""Canonical fingerprint of a live world: (ready queue, tasks, coroutine frames, pool, harness).

Used ONLY for visited-state pruning in `full` mode, never as an oracle.  Rules and their
justification: DESIGN.md section 3.5.  Anything the serialiser does not know is a hard
error (`Unknown`): nothing is abstracted silently.
"""
import argparse
import asyncio
import collections
import functools
import hashlib
import inspect
import io
import marshal
import types
from asyncio import locks

SORTED_DICT_ATTRS = ()
PRIMS = (bool, int, float, str, bytes, type(None))


class Unknown(Exception):
    pass


def _set_key(x):
    if isinstance(x, asyncio.Task):
        return (1, x.get_name())
    return (0, repr(x))


class _Canon:
    def __init__(self):
        self.memo = {}
        self.depth = 0

    def ref(self, o, kind):
        k = id(o)
        m = self.memo
        if k in m:
            return (kind, m[k]), False
        m[k] = len(m)
        return (kind, m[k]), True

    def c(self, o):
        t = type(o)
        if t in PRIMS:
            return o
        h = HANDLERS.get(t)
        if h is None:
            h = _resolve(t, o)
        self.depth += 1
        if self.depth > 120:
            raise Unknown("too deep")
        try:
            return h(self, o)
        finally:
            self.depth -= 1

    # ---- handlers
    def seq(self, o):
        c = self.c
        return ("L", tuple([c(x) for x in o]))

    def dict_(self, o):
        c = self.c
        return ("D", tuple([(c(k), c(v)) for k, v in o.items()]))

    def set_(self, o):
        c = self.c
        return ("S", tuple([c(x) for x in sorted(o, key=_set_key)]))

    def task(self, o):
        r, new = self.ref(o, "T")
        if not new:
            return r
        c = self.c
        done = o.done()
        exc = None
        if done and not o.cancelled() and o._exception is not None:
            exc = type(o._exception).__name__
        return (
            r,
            o.get_name(),
            o._state,
            bool(o._must_cancel),
            o.cancelling(),
            c(o._fut_waiter),
            # never call get_coro() on a finished task (3.12.1: NULL deref for tasks that
            # completed during an eager first step)
            None if done else c(o.get_coro()),
            exc,
            tuple([c(cb) for cb, _ in (o._callbacks or ())]),
        )

    def future(self, o):
        r, new = self.ref(o, "F")
        if not new:
            return r
        c = self.c
        extra = ()
        if hasattr(o, "_children"):
            extra = tuple([c(x) for x in o._children])
        res = None
        if o._state == "FINISHED":
            if o._exception is not None:
                res = ("exc", c(o._exception))
            else:
                res = ("res", c(o._result))
        return (r, type(o).__name__, o._state, res, tuple([c(cb) for cb, _ in (o._callbacks or ())]), extra)

    def frame_locals(self, fr):
        c = self.c
        return tuple([(k, c(v)) for k, v in sorted(fr.f_locals.items())])

    def coro(self, o):
        r, new = self.ref(o, "C")
        if not new:
            return r
        fr = o.cr_frame
        if fr is None:
            return (r, o.__qualname__, "closed")
        return (r, o.__qualname__, fr.f_lasti, self.frame_locals(fr), self.c(o.cr_await))

    def gen(self, o):
        r, new = self.ref(o, "G")
        if not new:
            return r
        fr = o.gi_frame
        if fr is None:
            return (r, o.__qualname__, "closed")
        return (r, o.__qualname__, fr.f_lasti, self.frame_locals(fr), self.c(o.gi_yieldfrom))

    def sem(self, o):
        r, new = self.ref(o, "Sem")
        if not new:
            return r
        c = self.c
        return (r, o._value, tuple([c(w) for w in (o._waiters or ())]))

    def lock(self, o):
        r, new = self.ref(o, "Lock")
        if not new:
            return r
        c = self.c
        return (r, o._locked, tuple([c(w) for w in (o._waiters or ())]))

    def event(self, o):
        r, new = self.ref(o, "Ev")
        if not new:
            return r
        c = self.c
        return (r, o._value, tuple([c(w) for w in o._waiters]))

    def handle(self, o):
        c = self.c
        return ("H", o._cancelled, c(o._callback), tuple([c(a) for a in o._args]))

    def func(self, o):
        r, new = self.ref(o, "Fn")
        if not new:
            return r
        c = self.c
        cells = ()
        if o.__closure__:
            cl = []
            for name, cell in zip(o.__code__.co_freevars, o.__closure__):
                try:
                    v = cell.cell_contents
                except ValueError:
                    v = "<empty>"
                cl.append((name, c(v)))
            cells = tuple(cl)
        return (r, o.__qualname__, cells)

    def partial(self, o):
        c = self.c
        return ("P", c(o.func), tuple([c(a) for a in o.args]), c(o.keywords))

    def method(self, o):
        return ("M", o.__func__.__qualname__, self.c(o.__self__))

    def builtin(self, o):
        s = getattr(o, "__self__", None)
        if isinstance(s, types.ModuleType):
            s = None
        return ("B", o.__name__, self.c(s))

    def stepwrap(self, o):
        return ("Step", self.c(o.__self__))

    def const(self, o):
        return (type(o).__name__,)

    def loop(self, o):
        return ("LOOP",)

    def cls(self, o):
        return ("cls", o.__qualname__)

    def canon_obj(self, o):
        r, new = self.ref(o, "O")
        if not new:
            return r
        return (r, type(o).__name__, self.c(o.__canon__()))

    def iterator(self, o):
        return ("it", type(o).__name__, o.__length_hint__())

    def lib_obj(self, o):
        r, new = self.ref(o, "O")
        if not new:
            return r
        d = dict(vars(o))
        for k in SORTED_DICT_ATTRS:
            if k in d:
                d[k] = dict(sorted(d[k].items()))
        return (r, type(o).__name__, self.c(d))

    def exc(self, o):
        return ("exc", type(o).__name__, self.c(getattr(o, "tag", None)))

    def module(self, o):
        return ("mod", o.__name__)

    def stream_reader(self, o):
        r, new = self.ref(o, "SR")
        if not new:
            return r
        exc = type(o._exception).__name__ if o._exception is not None else None
        return (r, bytes(o._buffer), o._eof, self.c(o._waiter), exc)

    def stringio(self, o):
        return ("StringIO", o.getvalue(), o.tell())

    def prop(self, o):
        return ("prop", getattr(o.fget, "__qualname__", None))

    def dict_view(self, o):
        c = self.c
        return ("view", type(o).__name__, tuple([c(x) for x in o]))

    def repr_(self, o):
        return ("repr", type(o).__name__, repr(o))

    def parser(self, o):
        # the argparse parser of a session is built once during the handshake and not mutated afterwards
        return ("parser", type(o).__name__, o.prog)


HANDLERS = {
    tuple: _Canon.seq,
    list: _Canon.seq,
    collections.deque: _Canon.seq,
    dict: _Canon.dict_,
    collections.Counter: _Canon.dict_,
    collections.OrderedDict: _Canon.dict_,
    collections.defaultdict: _Canon.dict_,
    set: _Canon.set_,
    frozenset: _Canon.set_,
    types.CoroutineType: _Canon.coro,
    types.GeneratorType: _Canon.gen,
    types.FunctionType: _Canon.func,
    functools.partial: _Canon.partial,
    types.MethodType: _Canon.method,
    types.BuiltinFunctionType: _Canon.builtin,
    types.ModuleType: _Canon.module,
}


def _resolve(t, o):
    """Pick (and cache) the handler for a type seen for the first time."""
    tn = t.__name__
    if issubclass(t, asyncio.Task):
        h = _Canon.task
    elif issubclass(t, asyncio.Future):
        h = _Canon.future
    elif issubclass(t, locks.Semaphore):
        h = _Canon.sem
    elif issubclass(t, locks.Lock):
        h = _Canon.lock
    elif issubclass(t, locks.Event):
        h = _Canon.event
    elif issubclass(t, asyncio.Handle):
        h = _Canon.handle
    elif issubclass(t, asyncio.StreamReader):
        h = _Canon.stream_reader
    elif issubclass(t, io.StringIO):
        h = _Canon.stringio
    elif issubclass(t, property):
        h = _Canon.prop
    elif issubclass(t, argparse.ArgumentParser):
        h = _Canon.parser
    elif tn in ("dict_keys", "dict_values", "dict_items"):
        h = _Canon.dict_view
    elif issubclass(t, (inspect.Parameter, inspect.Signature)):
        h = _Canon.repr_
    elif tn == "TaskStepMethWrapper":
        h = _Canon.stepwrap
    elif tn == "FutureIter":
        h = _Canon.const
    elif issubclass(t, asyncio.AbstractEventLoop):
        h = _Canon.loop
    elif issubclass(t, type):
        h = _Canon.cls
    elif hasattr(t, "__canon__"):
        h = _Canon.canon_obj
    elif tn in ("list_iterator", "range_iterator", "tuple_iterator", "list_reverseiterator"):
        h = _Canon.iterator
    elif t.__module__.startswith("asyncio_taskpool") and not issubclass(t, BaseException):
        h = _Canon.lib_obj
    elif issubclass(t, asyncio.Queue):
        h = _Canon.lib_obj
    elif issubclass(t, BaseException):
        h = _Canon.exc
    elif issubclass(t, (set, frozenset)):
        h = _Canon.set_
    else:
        raise Unknown(f"unknown type {t!r}: {o!r}")
    HANDLERS[t] = h
    return h


def canon_state(ready, roots):
    cn = _Canon()
    return (cn.c(list(ready)), tuple([cn.c(r) for r in roots]))


def digest(canon):
    # marshal version 2: no object back-references, so the bytes depend on the value only
    return hashlib.blake2b(marshal.dumps(canon, 2), digest_size=16).digest()
