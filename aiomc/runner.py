"""Runs the cells (closed scenarios) of one property on all cores, writes evidence and replays."""
import hashlib
import importlib
import json
import multiprocessing as mp
import os
import sys
import time
import traceback

VERIF = os.path.dirname(os.path.dirname(os.path.abspath(__file__)))


def world_factory(cell):
    kind = cell.get("world", "pool")
    if kind == "pool":
        from .monitors import MONITORS
        from .poolworld import PoolWorld

        fs = [MONITORS[m] for m in cell["monitors"]]
        return lambda scen, ctl: PoolWorld(scen, ctl, fs)
    if kind == "queue":
        from .queueworld import QueueWorld

        return lambda scen, ctl: QueueWorld(scen, ctl)
    if kind == "ctl":
        from ctl.memworld import CtlWorld

        return lambda scen, ctl: CtlWorld(scen, ctl)
    raise ValueError(kind)


def run_cell(args):
    cell, seed, deadline = args
    t0 = time.time()
    soft = cell.get("soft_s")
    capped_by_soft = False
    if soft is not None and (deadline is None or t0 + soft < deadline):
        deadline = t0 + soft
        capped_by_soft = True
    try:
        from . import explorer

        W = world_factory(cell)
        r = explorer.explore(
            W,
            cell["scen"],
            mode=cell.get("mode", "full"),
            bound=cell.get("bound", 0),
            seed=seed,
            max_exec=cell.get("max_exec"),
            deadline=deadline,
            known_keys=tuple(cell.get("known_keys", ())),
        )
        out = {
            "name": cell["name"],
            "stats": r["stats"],
            "violations": r["violations"],
            "observations": r["observations"],
            "complete": r["complete"],
            "samples": r["samples"][:1],
            "wall": time.time() - t0,
            "soft_capped": capped_by_soft and not r["complete"] and not r["violations"],
        }
        xv = cell.get("xval")
        if xv is not None and r["complete"] and not r["violations"]:
            seen, obs, n = explorer.states_of_bounded(W, cell["scen"], xv, seed=seed, max_exec=cell.get("xval_max_exec"))
            seen.discard(None)
            missing = len(seen - r["visited"])
            out["xval"] = {
                "bound": xv,
                "executions": n,
                "states": len(seen),
                "missing_from_full": missing,
                "obs_equal_or_subset": obs <= r["obs_set"],
            }
            if missing or not obs <= r["obs_set"]:
                out["error"] = f"fingerprint cross-validation failed: {out['xval']}"
        return out
    except Exception as e:  # harness error: never a violation
        return {
            "name": cell["name"],
            "error": f"{type(e).__name__}: {e}",
            "trace": traceback.format_exc(),
            "wall": time.time() - t0,
        }


def _one_execution(cell, policy):
    """Runs ONE schedule of a cell (policy 'first': always the first enabled event, 'last': always the last one);
    returns (observation, violations, choices)."""
    from . import explorer

    W = world_factory(cell)

    class _Ctl(explorer.Ctl):
        def choose(self, n, free=False):
            if n <= 1:
                return 0
            ch = 0 if policy == "first" else n - 1
            self.choices.append(ch)
            self.points.append((n, free))
            return ch

    ctl = _Ctl([])
    w = W(cell["scen"], ctl)
    try:
        for _ in range(400):
            acts = w.boundary()
            if w.viol or not acts:
                break
            w.do(acts[ctl.choose(len(acts), free=w.idle())])
        if not w.viol:
            w.terminal()
        return w.observation(), [(v[0], v[1]) for v in w.viol], list(ctl.choices)
    finally:
        w.release()


def carry_over_check(args):
    """Differential oracle 'same behaviour from the initial state and from elsewhere': a schedule of a small scenario
    must give the same observation in a fresh process state and after many other pools/tasks have lived and died in
    the same process WITHOUT the harness resetting the library's module/class-level state in between (so that state
    which the code under test carries from one pool to the next - caches, hoisted buffers - becomes visible)."""
    import gc

    from . import vloop

    cells, rounds = args
    fresh = {}
    for c in cells:
        for pol in ("first", "last"):
            fresh[(c["name"], pol)] = _one_execution(c, pol)
    real_restore = vloop._restore_library_state
    vloop._restore_library_state = lambda: None
    bad = []
    try:
        for _ in range(rounds):
            for c in cells:
                _one_execution(c, "first")
                _one_execution(c, "last")
            gc.collect()
        for c in cells:
            for pol in ("first", "last"):
                o, v, ch = _one_execution(c, pol)
                fo, fv, fch = fresh[(c["name"], pol)]
                if (o, v) != (fo, fv):
                    bad.append({"cell": c["name"], "policy": pol, "fresh_violations": fv, "carried_violations": v,
                                "same_observation": o == fo})
    finally:
        vloop._restore_library_state = real_restore
    return 2 * len(cells) * (rounds + 2), bad


def save_replay(prop, cell, viol):
    os.makedirs(os.path.join(VERIF, "replays"), exist_ok=True)
    body = {
        "property": prop,
        "reported_by_monitor": viol["prop"],
        "cell": cell["name"],
        "world": cell.get("world", "pool"),
        "monitors": cell.get("monitors", []),
        "scen": cell["scen"],
        "choices": viol["choices"],
        "actions": viol["actions"],
        "violation": {"key": viol["key"], "detail": viol["detail"]},
    }
    h = hashlib.blake2b(json.dumps([cell["name"], viol["key"], viol["choices"]]).encode(), digest_size=6).hexdigest()
    path = os.path.join(VERIF, "replays", f"{prop}-{h}.json")
    with open(path, "w") as f:
        json.dump(body, f, indent=1)
    return path


def confirm(cell, viol):
    """A violation is only reported if it reproduces on an immediate plain replay."""
    from . import explorer

    W = world_factory(cell)
    w, ctl = explorer.replay(W, cell["scen"], viol["choices"])
    return any((v[0], v[1]) == (viol["prop"], viol["key"]) for v in w.viol)


def load_known(status="open"):
    path = os.path.join(VERIF, "known_findings.json")
    if not os.path.exists(path):
        return []
    with open(path) as f:
        return [k for k in json.load(f).get("findings", []) if k.get("status") == status]


def regression_replays(prop):
    """Fixed findings suppress nothing: their failing schedules are replayed on every run."""
    from . import explorer

    bad = []
    n = 0
    for k in load_known("fixed"):
        if k["property"] != prop or not k.get("reproducer"):
            continue
        path = os.path.join(VERIF, k["reproducer"])
        with open(path) as f:
            body = json.load(f)
        if body.get("world", "pool") not in ("pool", "queue"):
            continue
        cell = {"name": body["cell"], "world": body.get("world", "pool"), "monitors": body.get("monitors", []), "scen": body["scen"]}
        try:
            w, ctl = explorer.replay(world_factory(cell), body["scen"], body["choices"])
        except explorer.ReplayDivergence:
            continue  # the schedule no longer exists on this tree (e.g. fewer choice points): nothing to report
        n += 1
        if w.viol:
            bad.append((path, k, w.viol[0]))
    return n, bad


def core_cells(prop, monitors):
    """Quick tier: a small data-derived set of scenarios from the OTHER pool properties' grids (props/core_cells.json:
    a greedy cover, by small cells, of the histories that exposed the independently seeded changes), run with this
    property's monitors."""
    path = os.path.join(VERIF, "props", "core_cells.json")
    if not os.path.exists(path):
        return []
    with open(path) as f:
        wanted = json.load(f)
    out = []
    cache = {}
    seen = set()
    for other_id, name in wanted:
        if other_id == prop or other_id not in CROSS_PROPS:
            continue
        if other_id not in cache:
            other = importlib.import_module(f"props.{other_id.lower()}")
            cache[other_id] = {c["name"]: c for c in other.cells("quick")}
        c = cache[other_id].get(name)
        if c is not None and c.get("world", "pool") == "pool" and not c.get("own_only"):
            key = json.dumps(c["scen"], sort_keys=True)
            if key in seen:
                continue
            seen.add(key)
            out.append(dict(c, monitors=list(monitors), name=f"[core {other_id}] " + name))
    return out


BIG_STATES = {"quick": 25000, "thorough": 150000}
QUICK_MAX_STATES = 45000


def load_weights(prop, tier):
    path = os.path.join(VERIF, "props", "weights.json")
    try:
        with open(path) as f:
            return json.load(f).get(prop, {})
    except (OSError, ValueError):
        return {}


CROSS_PROPS = ["C01", "C02", "C03", "C04", "C05", "C07", "C08", "C10", "C11", "C12", "C13", "C14", "C15"]


def run_property(prop, tier, seed, jobs=None, only=None, budget=None, grid=None, mon=None):
    mod = importlib.import_module(f"props.{prop.lower()}")
    cells = mod.cells(tier)
    if grid:
        # experiment mode: this property's monitors on another property's scenario grid
        other = importlib.import_module(f"props.{grid.lower()}")
        own = mon.split(",") if mon else getattr(mod, "MON", [prop])
        cells = [dict(c, monitors=list(own), name=f"[{grid}] " + c["name"]) for c in other.cells(tier)
                 if c.get("world", "pool") == "pool" and not c.get("own_only")]
    if tier == "thorough" and not grid and prop in CROSS_PROPS and getattr(mod, "CROSS", True):
        # thorough tier: this property's monitors also run on the quick grids of the other pool properties
        # (the monitors are sound on any pool scenario; histories designed for one property often break another)
        own = getattr(mod, "MON", [prop])
        for other_id in CROSS_PROPS:
            if other_id == prop:
                continue
            other = importlib.import_module(f"props.{other_id.lower()}")
            # (cells marked own_only use harness features only their own monitors understand - a caller of
            # gather_and_close() cancelled by the harness, callbacks that flush behind the harness' back, pools sharing a name)
            cells += [dict(c, monitors=list(own), name=f"[{other_id}] " + c["name"]) for c in other.cells("quick")
                      if c.get("world", "pool") == "pool" and not c.get("own_only")]
    if tier == "quick" and not grid and prop in CROSS_PROPS and getattr(mod, "CROSS", True):
        cells += core_cells(prop, getattr(mod, "MON", [prop]))
    if only:
        cells = [c for c in cells if only in c["name"]]
    budget = budget or getattr(mod, "BUDGET", {}).get(tier, 600 if tier == "quick" else 3600)
    t0 = time.time()
    deadline = t0 + budget
    jobs = jobs or min(16, os.cpu_count() or 1, max(1, len(cells)))
    # scheduling hints (props/weights.json, regenerated by tools_weights.py from a clean run's evidence): the number of
    # states of each cell the last time it was measured. Only the order of work and the choice "one core / all cores"
    # depend on it, never what is explored.
    hints = load_weights(prop, tier)
    for c in cells:
        c.setdefault("weight", hints.get(c["name"], 1000))
    deferred = []
    if tier == "quick" and not only and not grid:
        # the quick tier leaves the cells last measured above QUICK_MAX_STATES to the thorough tier (whose grids
        # contain every quick cell); they are listed in the evidence
        deferred = sorted(c["name"] for c in cells if c["weight"] > getattr(mod, "QUICK_MAX_STATES", QUICK_MAX_STATES) and not c.get("keep_in_quick"))
        cells = [c for c in cells if c["name"] not in set(deferred)]
    order = list(range(len(cells)))
    order.sort(key=lambda i: -cells[i].get("weight", 1))
    kkeys = [k["match_key"] for k in load_known() if k["property"] == prop]
    for c in cells:
        c["known_keys"] = kkeys
    soft = getattr(mod, "SOFT_S", {}).get(tier, 30 if tier == "quick" else 90)
    if jobs > 1:
        for c in cells:
            c.setdefault("soft_s", soft)
    # cells known to be too large for one core within the soft cap go straight to the all-cores search
    straight = {c["name"] for c in cells if jobs > 1 and c["weight"] > BIG_STATES.get(tier, 10**9) and c.get("world", "pool") in ("pool", "queue")}
    work = [(cells[i], seed, deadline) for i in order if cells[i]["name"] not in straight]
    results = {}
    if jobs == 1:
        for a in work:
            r = run_cell(a)
            results[r["name"]] = r
    else:
        ctx = mp.get_context("fork")
        with ctx.Pool(jobs, maxtasksperchild=8) as pool:
            for r in pool.imap_unordered(run_cell, work, chunksize=1):
                results[r["name"]] = r
    _tm = os.environ.get("VERIF_TIMING")
    if _tm:
        print(f"[timing] phase1 {time.time() - t0:.1f}s", file=sys.stderr)
    byname = {c["name"]: c for c in cells}
    # phase 2: cells too large for one core within the soft cap are explored again from scratch by
    # all cores sharing one visited table (aiomc/parallel.py), one cell at a time
    big = sorted(straight) + [n for n, r in results.items() if r.get("soft_capped")]
    if big:
        from .parallel import explore_parallel

        for n in sorted(big):
            if time.time() > deadline - 2:
                break
            r = explore_parallel(byname[n], nworkers=min(16, os.cpu_count() or 1), deadline=deadline)
            r["phase1_states_discarded"] = results[n]["stats"]["states"] if n in results else 0
            results[n] = r
        for n in straight:
            if n not in results:  # budget used up before its turn: reported as not explored (incomplete)
                from .explorer import Stats

                results[n] = {"name": n, "stats": Stats().as_dict(), "violations": [], "observations": 0, "obs_set": set(),
                              "complete": False, "samples": [], "wall": 0.0}
    if _tm:
        print(f"[timing] phase2 done at {time.time() - t0:.1f}s (big cells: {len(big)})", file=sys.stderr)
    # thorough tier: cross-validate the fingerprint abstraction on small cells - every state reached by the
    # unpruned bounded(1) search must be in the pruned search's visited set, with the same terminal observations
    xv_results = []
    if tier == "thorough" and jobs > 1 and time.time() < deadline - 30:
        import random as _random

        small = [n for n, r in results.items() if r.get("complete") and "stats" in r and 20 <= r["stats"]["states"] <= 2500
                 and r.get("parallel_workers", 1) == 1 and byname[n].get("world", "pool") != "ctl"]
        _random.Random(seed).shuffle(small)
        xcells = []
        for n in small[:48]:
            c = dict(byname[n])
            c.update(name=n + " [xval]", xval=1, xval_max_exec=15000, soft_s=None)
            byname[c["name"]] = c
            xcells.append((c, seed, deadline))
        if xcells:
            ctx = mp.get_context("fork")
            with ctx.Pool(min(jobs, len(xcells))) as pool:
                for r in pool.imap_unordered(run_cell, xcells, chunksize=1):
                    if "xval" in r:
                        xv_results.append({"cell": r["name"], **r["xval"]})
                    if "error" in r:
                        results[r["name"]] = r
    # state carried over between independent pools of one process (see carry_over_check)
    carry_bad, carry_execs = [], 0
    if jobs > 1 and not only and cells and cells[0].get("world", "pool") == "pool":
        picked = _carry_cells(cells)
        if picked:
            ctx = mp.get_context("fork")
            with ctx.Pool(1) as pool:
                carry_execs, carry_bad = pool.apply(carry_over_check, ((picked, 60 if tier == "quick" else 300),))
    wall = time.time() - t0
    if _tm:
        print(f"[timing] carry-over done at {wall:.1f}s", file=sys.stderr)
    errors = [r for r in results.values() if "error" in r]
    known = [k for k in load_known() if k["property"] == prop]
    viol_lines = []
    n_regr, regr_bad = regression_replays(prop)
    for path, k, v in regr_bad:
        viol_lines.append((path, "regression:" + k["id"], {"prop": v[0], "key": v[1], "detail": repr(v[2:])}))
    known_hit = {}
    n_viol = 0
    for name, r in sorted(results.items()):
        for v in r.get("violations", []):
            cell = byname[name]
            if v["prop"] == "HARNESS":
                errors.append({"name": name, "error": f"harness: {v['key']} {v['detail']}"})
                continue
            if not confirm(cell, v):
                errors.append({"name": name, "error": f"violation did not reproduce on replay: {v['key']}"})
                continue
            kf = next((k for k in known if k["match_key"] == v["key"] and k.get("cell_prefix", "") in name), None)
            if kf is not None:
                known_hit[kf["id"]] = kf
                continue
            n_viol += 1
            path = save_replay(prop, cell, v)
            viol_lines.append((path, name, v))
    for b in carry_bad:
        path = os.path.join(VERIF, "replays", f"{prop}-carry-{hashlib.blake2b(b['cell'].encode(), digest_size=5).hexdigest()}.json")
        os.makedirs(os.path.dirname(path), exist_ok=True)
        with open(path, "w") as f:
            json.dump({"property": prop, "world": "carry", "cell": b["cell"], "scen": byname[b["cell"]]["scen"],
                       "monitors": byname[b["cell"]].get("monitors", []), "detail": b}, f, indent=1)
        viol_lines.append((path, b["cell"], {"prop": prop, "key": "behaviour depends on pools that lived earlier in the same process "
                                             "(state carried over between independent pools)", "detail": json.dumps(b)[:300]}))
    tot = {k: 0 for k in ("executions", "transitions", "states", "pruned", "terminals", "det_checks", "unhashable")}
    maxdepth = 0
    obs = 0
    incomplete = []
    cellrows = []
    samples = []
    xvals = []
    for name, r in sorted(results.items()):
        if "stats" not in r:
            continue
        for k in tot:
            tot[k] += r["stats"][k]
        maxdepth = max(maxdepth, r["stats"]["max_depth"])
        obs += r["observations"]
        if not r["complete"] and not r["violations"]:
            incomplete.append(name)
        cellrows.append({
            "cell": name,
            "states": r["stats"]["states"],
            "executions": r["stats"]["executions"],
            "transitions": r["stats"]["transitions"],
            "terminal_observations": r["observations"],
            "complete": r["complete"],
            "wall_s": round(r["wall"], 2),
            "parallel_workers": r.get("parallel_workers", 1),
        })
        if r.get("samples") and len(samples) < 3:
            samples.append({"cell": name, "scenario": byname[name]["scen"], "schedule": r["samples"][0]})
        if "xval" in r:
            xvals.append({"cell": name, **r["xval"]})
    xvals += xv_results
    evidence = {
        "property_id": prop,
        "tier": tier,
        "seed": seed,
        "level": "model_checking",
        "coverage": {
            "states": tot["states"],
            "transitions": tot["transitions"],
            "traces_validated_against_impl": tot["executions"],
            "samples": samples or [{"note": "no terminal execution sampled"}],
            "exhaustive": not incomplete and not errors,
            "executions": tot["executions"],
            "pruned_executions": tot["pruned"],
            "terminal_states": tot["terminals"],
            "distinct_terminal_observations": obs,
            "max_depth": maxdepth,
            "determinism_double_replays": tot["det_checks"],
            "states_not_fingerprinted_never_merged": tot["unhashable"],
            "cells": len(cellrows),
            "cells_incomplete": incomplete,
            "cells_left_to_thorough_tier": deferred,
            "per_cell": cellrows,
            "fingerprint_cross_validation": xvals,
            "explanation": getattr(mod, "EXPLANATION", ""),
            "known_findings_hit": sorted(known_hit),
            "fixed_finding_schedules_replayed": n_regr,
            "carry_over_executions": carry_execs,
        },
        "assumptions": getattr(mod, "ASSUMPTIONS", []) + [
            "every execution runs the real asyncio_taskpool code from the current working tree on a virtual event loop; "
            "there is no separate model, so every explored trace is an implementation trace",
            "CPython 3.12.1 asyncio semantics (FIFO ready queue, Semaphore hand-off)",
        ],
        "wall_s": round(wall, 2),
        "violations": n_viol + len(regr_bad) + len(carry_bad),
    }
    evdir = os.environ.get("VERIF_EVIDENCE_DIR") or os.path.join(VERIF, "evidence")
    os.makedirs(evdir, exist_ok=True)
    with open(os.path.join(evdir, f"{prop}.json"), "w") as f:
        json.dump(evidence, f, indent=1, default=str)
    print(f"[{prop}] tier={tier} seed={seed} cells={len(cellrows)} states={tot['states']} transitions={tot['transitions']} "
          f"executions={tot['executions']} terminal_observations={obs} max_depth={maxdepth} wall={wall:.1f}s "
          f"incomplete={len(incomplete)}")
    for kf in known_hit.values():
        print(f"KNOWN-FINDING: property={prop} {kf['what']}")
    for path, name, v in viol_lines:
        print(f"  cell={name} monitor={v['prop']} {v['key']} {v['detail']}")
        print(f"VIOLATION property={prop} replay={path}")
    if errors:
        for e in errors:
            print(f"HARNESS-ERROR cell={e['name']} {e['error']}", file=sys.stderr)
            if e.get("trace"):
                print(e["trace"], file=sys.stderr)
        return 2 if not viol_lines else 1
    if incomplete:
        print(f"NOTE: {len(incomplete)} cell(s) hit the time/execution cap and are reported as not exhaustive: {incomplete[:5]}")
    return 1 if viol_lines else 0


def _carry_cells(cells):
    small = sorted((c for c in cells if len(json.dumps(c["scen"])) < 400 and not c["scen"].get("inline")),
                   key=lambda c: len(json.dumps(c["scen"])))
    return small[:: max(1, len(small) // 10)][:10]


def run_replay(path):
    with open(path) as f:
        body = json.load(f)
    from . import explorer

    if body.get("world") == "carry":
        # not a single schedule: the carry-over procedure of the property is re-run as a whole
        prop = body["property"]
        mod = importlib.import_module(f"props.{prop.lower()}")
        cells = mod.cells("quick")
        if prop in CROSS_PROPS:
            cells += core_cells(prop, getattr(mod, "MON", [prop]))
        n, bad = carry_over_check((_carry_cells(cells), 60))
        print(f"carry-over check: {n} executions, {len(bad)} scenario(s) behave differently after earlier pools lived in the process")
        for b in bad:
            print("  ", json.dumps(b)[:400])
        if bad:
            print(f"VIOLATION property={prop} replay={path}")
            return 1
        return 0

    cell = {"name": body["cell"], "world": body.get("world", "pool"), "monitors": body.get("monitors", []), "scen": body["scen"]}
    W = world_factory(cell)
    w, ctl = explorer.replay(W, body["scen"], body["choices"])
    print("scenario:", json.dumps(body["scen"]))
    for a in ctl.actions:
        print("   ", a)
    if w.viol:
        for v in w.viol:
            print("violation:", v)
        print(f"VIOLATION property={body['property']} replay={path}")
        return 1
    print("no violation on this schedule")
    return 0
