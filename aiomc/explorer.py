"""Stateless-with-replay explorer over a World (DESIGN.md section 3.3/3.4).

World protocol
    World(scen, ctl)         build a fresh world on a fresh virtual loop
    .boundary() -> acts      sample monitors; canonical list of enabled events
    .idle() -> bool          loop has no ready handle
    .do(act)                 perform one event (may call ctl.choose() at inline points)
    .ready(), .roots()       for the fingerprint
    .terminal()              terminal-state oracles
    .observation()           hashable terminal observation vector
    .describe(act) -> str
    .viol                    list of (prop, key, detail)
    .release()
"""
import random
import time

from .canon import Unknown, canon_state, digest


class ReplayDivergence(Exception):
    pass


class HarnessError(Exception):
    pass


class Ctl:
    """Owns every choice of one execution: replays `prefix`, then takes choice 0."""

    def __init__(self, prefix):
        self.prefix = prefix
        self.choices = []
        self.points = []  # (n, free)
        self.actions = []

    def beyond(self):
        return len(self.choices) >= len(self.prefix)

    def choose(self, n, free=False):
        if n <= 1:
            return 0
        k = len(self.choices)
        if k < len(self.prefix):
            ch = self.prefix[k]
            if ch >= n:
                raise ReplayDivergence(f"choice {ch} out of range {n} at point {k}")
        else:
            ch = 0
        self.choices.append(ch)
        self.points.append((n, free))
        return ch


class Stats:
    FIELDS = ("executions", "transitions", "states", "pruned", "terminals", "max_depth", "det_checks", "unhashable")

    def __init__(self):
        for f in self.FIELDS:
            setattr(self, f, 0)

    def as_dict(self):
        return {f: getattr(self, f) for f in self.FIELDS}


def execute(World, scen, prefix, mode, visited, stats, want_digests=False, max_len=2000):
    ctl = Ctl(prefix)
    w = World(scen, ctl)
    pruned = False
    terminal = False
    digests = [] if want_digests else None
    depth = 0
    try:
        while True:
            acts = w.boundary()
            if w.viol:
                break
            if not acts:
                terminal = True
                break
            if mode == "full" or want_digests:
                if ctl.beyond() or want_digests:
                    try:
                        h = digest(canon_state(w.ready(), w.roots()))
                    except Unknown:
                        # a live object the fingerprint does not know (e.g. code under test that keeps a
                        # new kind of object in a frame): this state is never merged with another one
                        # (sound: no pruning here), the execution simply continues
                        h = None
                        stats.unhashable += 1
                    if want_digests:
                        digests.append(h)
                    elif h is None:
                        pass
                    elif h in visited:
                        pruned = True
                        break
                    else:
                        visited.add(h)
            ch = ctl.choose(len(acts), free=w.idle())
            act = acts[ch]
            ctl.actions.append(w.describe(act))
            w.do(act)
            stats.transitions += 1
            depth += 1
            if depth > max_len:
                w.viol.append(("HARNESS", "execution too long", depth))
                break
        if terminal:
            w.terminal()
            stats.terminals += 1
    finally:
        w.release()
    stats.executions += 1
    stats.max_depth = max(stats.max_depth, depth)
    if pruned:
        stats.pruned += 1
    return w, ctl, terminal, digests


def explore(World, scen, mode="full", bound=0, seed=0, max_exec=None, deadline=None,
            det_every=400, max_viol_keys=3, stop_on_violation=True, known_keys=()):
    """Explore every execution of the closed scenario.

    mode 'full'     every enabled event at every choice point, pruning on visited fingerprints
    mode 'bounded'  no fingerprints; <= `bound` deviations (non-default choices at non-idle points)
    Returns dict(stats, violations, observations, complete, states)
    """
    rng = random.Random(seed)
    visited = set()
    stats = Stats()
    viols = {}
    observations = set()
    stack = [[]]
    complete = True
    samples = []
    while stack:
        if max_exec is not None and stats.executions >= max_exec:
            complete = False
            break
        if deadline is not None and time.time() > deadline:
            complete = False
            break
        prefix = stack.pop()
        w, ctl, terminal, _ = execute(World, scen, prefix, mode, visited, stats)
        if terminal and not w.viol:
            observations.add(w.observation())
            if len(samples) < 2:
                samples.append(list(ctl.actions))
        for v in w.viol:
            key = (v[0], v[1])
            if key not in viols:
                viols[key] = {
                    "prop": v[0],
                    "key": v[1],
                    "detail": repr(v[2:]),
                    "choices": list(ctl.choices),
                    "actions": list(ctl.actions),
                }
        # a violation that is a listed known finding does not end the exploration of the cell: everything
        # else in the cell is still explored, and any other violation is still reported
        fresh_viols = [k for k in viols if k[1] not in known_keys]
        if fresh_viols and (stop_on_violation or len(fresh_viols) >= max_viol_keys):
            complete = False
            break
        # determinism safety net: replaying the same schedule twice must give the same
        # fingerprint sequence (hard error otherwise, never a violation)
        if det_every and stats.executions % det_every == 1 and not w.viol:
            stats.det_checks += 1
            s2 = Stats()
            _, c1, _, d1 = execute(World, scen, list(ctl.choices), "replay", None, s2, want_digests=True)
            _, c2, _, d2 = execute(World, scen, list(ctl.choices), "replay", None, s2, want_digests=True)
            if d1 != d2 or c1.actions != c2.actions or c1.actions[: len(ctl.actions)] != ctl.actions:
                raise HarnessError(f"non-deterministic replay for schedule {ctl.choices}")
        children = []
        cost = 0
        costs = []
        for i, (n, free) in enumerate(ctl.points):
            costs.append(cost)
            if ctl.choices[i] != 0 and not free:
                cost += 1
        for i in range(len(prefix), len(ctl.points)):
            n, free = ctl.points[i]
            for alt in range(1, n):
                if mode == "bounded" and costs[i] + (0 if free else 1) > bound:
                    continue
                children.append(ctl.choices[:i] + [alt])
        if seed:
            rng.shuffle(children)
        else:
            children.reverse()
        stack.extend(children)
    stats.states = len(visited)
    return {
        "stats": stats.as_dict(),
        "violations": list(viols.values()),
        "observations": len(observations),
        "obs_set": observations,
        "complete": complete,
        "visited": visited,
        "samples": samples,
    }


def replay(World, scen, choices):
    """Plain re-execution of a recorded schedule (no pruning); returns (world, ctl)."""
    stats = Stats()
    w, ctl, terminal, _ = execute(World, scen, list(choices), "replay", None, stats)
    return w, ctl


def states_of_bounded(World, scen, bound, seed=0, max_exec=None):
    """Cross-validation helper: every boundary fingerprint reached by bounded(bound), no pruning."""
    seen = set()
    obs = set()
    stack = [[]]
    n = 0
    while stack:
        prefix = stack.pop()
        stats = Stats()
        w, ctl, terminal, digs = execute(World, scen, prefix, "replay", None, stats, want_digests=True)
        n += 1
        seen.update(digs)
        if terminal and not w.viol:
            obs.add(w.observation())
        cost = 0
        costs = []
        for i, (m, free) in enumerate(ctl.points):
            costs.append(cost)
            if ctl.choices[i] != 0 and not free:
                cost += 1
        for i in range(len(prefix), len(ctl.points)):
            m, free = ctl.points[i]
            for alt in range(1, m):
                if costs[i] + (0 if free else 1) > bound:
                    continue
                stack.append(ctl.choices[:i] + [alt])
        if max_exec and n >= max_exec:
            break
    return seen, obs, n
