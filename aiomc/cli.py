import argparse
import os
import sys


def main():
    ap = argparse.ArgumentParser()
    ap.add_argument("prop")
    ap.add_argument("--tier", default=os.environ.get("VERIF_TIER") or "quick", choices=["quick", "thorough"])
    ap.add_argument("--replay")
    ap.add_argument("--only")
    ap.add_argument("--jobs", type=int)
    ap.add_argument("--budget", type=float)
    a = ap.parse_args()
    seed = int(os.environ.get("VERIF_SEED", "0") or 0)
    from . import runner

    if a.replay:
        sys.exit(runner.run_replay(a.replay))
    sys.exit(runner.run_property(a.prop.upper(), a.tier, seed, jobs=a.jobs, only=a.only, budget=a.budget))


if __name__ == "__main__":
    main()
