import argparse
import os
import sys


def main():
    ap = argparse.ArgumentParser()
    ap.add_argument("prop")
    ap.add_argument("--tier", default=os.environ.get("VERIF_TIER") or "quick", choices=["quick", "thorough"])
    ap.add_argument("--replay")
    ap.add_argument("--only")
    ap.add_argument("--jobs", type=int)
    ap.add_argument("--budget", type=float)
    ap.add_argument("--mon", help="experiment: comma separated monitor list used with --grid")
    ap.add_argument("--grid", help="experiment: run this property's monitors on another property's grid")
    a = ap.parse_args()
    seed = int(os.environ.get("VERIF_SEED", "0") or 0)
    from . import runner

    prop = a.prop.upper()
    if a.replay:
        import json

        with open(a.replay) as f:
            world = json.load(f).get("world", "pool")
        if world == "ctl":
            from ctl import run as ctlrun

            sys.exit(ctlrun.run_replay(a.replay))
        sys.exit(runner.run_replay(a.replay))
    if prop in ("C16", "C17", "C18", "C19"):
        from ctl import run as ctlrun

        sys.exit(ctlrun.run_property(prop, a.tier, seed))
    sys.exit(runner.run_property(a.prop.upper(), a.tier, seed, jobs=a.jobs, only=a.only, budget=a.budget, grid=a.grid, mon=a.mon))


if __name__ == "__main__":
    main()
