"""Virtual, hand-stepped asyncio event loop (no selector, no threads, virtual clock).

The loop runs the *real* asyncio Task / Future / Semaphore / gather code; only the
decision "which external event happens next" is taken away from the OS and given to
the explorer.  See DESIGN.md section 3.1.
"""
import asyncio
import logging
import sys
import warnings
from asyncio import events

warnings.simplefilter("ignore")
sys.unraisablehook = lambda *a, **k: None
_tp_log = logging.getLogger("asyncio_taskpool")
_tp_log.addHandler(logging.NullHandler())
_tp_log.setLevel(1000)
_tp_log.propagate = False
logging.getLogger("asyncio").setLevel(1000)


class VLoop(asyncio.BaseEventLoop):
    def __init__(self):
        super().__init__()
        self._vt = 0.0
        self._tn = 0
        self.exc_log = []
        self.set_exception_handler(lambda loop, ctx: self.exc_log.append(ctx))
        self.iterations = 0
        self.tasks = []  # every task created through the loop (fingerprint roots)

    def time(self):
        return self._vt

    def is_running(self):
        return True

    def create_task(self, coro, *, name=None, context=None):
        if name is None:
            # the C Task implementation numbers unnamed tasks with a process-global
            # counter that cannot be reset: name them per loop instead
            self._tn += 1
            name = f"U{self._tn}"
        t = super().create_task(coro, name=name, context=context)
        self.tasks.append(t)
        return t

    def live_tasks(self):
        self.tasks = [t for t in self.tasks if not t.done()]
        return self.tasks

    def _process_events(self, ev):
        pass

    def _write_to_self(self):
        pass

    def step(self):
        """One real loop iteration: run exactly the handles that are ready now."""
        n = len(self._ready)
        self.iterations += 1
        for _ in range(n):
            h = self._ready.popleft()
            if h._cancelled:
                continue
            h._run()

    def idle(self):
        return not self._ready

    def run_idle(self, maxit=10000):
        k = 0
        while self._ready:
            self.step()
            k += 1
            if k > maxit:
                raise RuntimeError("run_idle: loop does not go idle")
        return k


def fresh_loop():
    """New virtual loop installed as the running loop; process-global library state reset."""
    from asyncio_taskpool import pool as poolmod

    poolmod.BaseTaskPool._pools.clear()
    loop = VLoop()
    events._set_running_loop(loop)
    # BaseEventLoop schedules one handle of its own when it starts running
    # (coroutine origin tracking); there is none here because run_forever is never
    # called, but drain defensively so that "idle" means idle.
    loop.run_idle()
    return loop


def release_loop(loop):
    events._set_running_loop(None)


# ---------------------------------------------------------------------------------------
# deterministic gather: the library feeds `gather` from sets of Tasks, whose iteration
# order depends on object addresses.  gather's outcome is symmetric in argument order
# except for which of several *already finished* failing children is reported; the
# harness owns that order (sorted by task name, or reversed: a configuration axis).
import asyncio.tasks as _at

_real_gather = _at.gather
GATHER_REVERSED = False


def _is_set_derived(a):
    """Spawner ("meta") tasks reach gather() from sets; pool tasks ('<pool>_Task-<id>') from insertion-ordered dicts."""
    try:
        return "_Task-" not in a.get_name()
    except AttributeError:
        return False


def _sorted_gather(*aws, return_exceptions=False):
    # keep the library's argument order except among the set-derived awaitables, whose mutual order depends on
    # object addresses in the real program: those are put into a canonical order (by task name) in place
    slots = [i for i, a in enumerate(aws) if _is_set_derived(a)]
    ordered = sorted((aws[i] for i in slots), key=lambda a: a.get_name(), reverse=GATHER_REVERSED)
    out = list(aws)
    for i, a in zip(slots, ordered):
        out[i] = a
    return _real_gather(*out, return_exceptions=return_exceptions)


def install_gather_wrapper():
    from asyncio_taskpool import pool as poolmod

    poolmod.gather = _sorted_gather
