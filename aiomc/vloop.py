"""Virtual, hand-stepped asyncio event loop (no selector, no threads, virtual clock).

The loop runs the *real* asyncio Task / Future / Semaphore / gather code; only the
decision "which external event happens next" is taken away from the OS and given to
the explorer.  See DESIGN.md section 3.1.
"""
import asyncio
import logging
import sys
import warnings
from asyncio import events

warnings.simplefilter("ignore")
sys.unraisablehook = lambda *a, **k: None
_tp_log = logging.getLogger("asyncio_taskpool")
import os as _os


class _Sink(logging.Handler):
    """Takes every record of the library's loggers (so that logging calls are really executed and formatted, as
    they would be in an application with logging configured) and drops the text."""

    def emit(self, record):
        try:
            record.getMessage()
        except Exception:  # noqa: BLE001
            self.handleError(record)

    def handleError(self, record):
        BROKEN_LOG_CALLS.append(record.msg)


BROKEN_LOG_CALLS = []
_tp_log.addHandler(_Sink())
_tp_log.setLevel(1 if _os.environ.get("VERIF_LIB_LOGGING", "1") == "1" else 1000)
_tp_log.propagate = False
logging.getLogger("asyncio").setLevel(1000)


class VLoop(asyncio.BaseEventLoop):
    def __init__(self):
        super().__init__()
        self._vt = 0.0
        self._tn = 0
        self.exc_log = []
        self.set_exception_handler(lambda loop, ctx: self.exc_log.append(ctx))
        self.iterations = 0
        self.tasks = []  # every task created through the loop (fingerprint roots)

    def time(self):
        return self._vt

    def is_running(self):
        return True

    def create_task(self, coro, *, name=None, context=None):
        if name is None:
            # the C Task implementation numbers unnamed tasks with a process-global
            # counter that cannot be reset: name them per loop instead
            self._tn += 1
            name = f"U{self._tn}"
        t = super().create_task(coro, name=name, context=context)
        self.tasks.append(t)
        return t

    def live_tasks(self):
        self.tasks = [t for t in self.tasks if not t.done()]
        return self.tasks

    def _process_events(self, ev):
        pass

    def _write_to_self(self):
        pass

    def step(self):
        """One real loop iteration: run exactly the handles that are ready now."""
        import heapq

        while self._scheduled and self._scheduled[0]._when <= self._vt:  # as BaseEventLoop._run_once does
            h = heapq.heappop(self._scheduled)
            h._scheduled = False
            if not h._cancelled:
                self._ready.append(h)
        n = len(self._ready)
        self.iterations += 1
        for _ in range(n):
            h = self._ready.popleft()
            if h._cancelled:
                continue
            h._run()

    def idle(self):
        return not self._ready and not any(not h._cancelled and h._when <= self._vt for h in self._scheduled)

    def run_idle(self, maxit=10000):
        k = 0
        while self._ready:
            self.step()
            k += 1
            if k > maxit:
                raise RuntimeError("run_idle: loop does not go idle")
        return k


_LIB_STATE = None


def _snapshot_library_state():
    """Process-global mutable state of the library (module globals and class attributes that are containers):
    recorded once, restored before every execution, so that no execution can influence another one through it."""
    import importlib
    import pkgutil

    import asyncio_taskpool

    snap = []
    mods = [asyncio_taskpool]
    for info in pkgutil.walk_packages(asyncio_taskpool.__path__, "asyncio_taskpool."):
        try:
            mods.append(importlib.import_module(info.name))
        except Exception:  # noqa: BLE001
            continue
    seen = set()
    for mod in mods:
        holders = [mod] + [v for v in vars(mod).values() if isinstance(v, type) and getattr(v, "__module__", "").startswith("asyncio_taskpool")]
        for h in holders:
            for name, val in list(vars(h).items()):
                if name.startswith("__") or id(val) in seen:
                    continue
                if type(val) in (dict, list, set):
                    seen.add(id(val))
                    snap.append((h, name, val, type(val)(val)))
    return snap


def _restore_library_state():
    global _LIB_STATE
    if _LIB_STATE is None:
        _LIB_STATE = _snapshot_library_state()
    known = {(id(h), n) for h, n, _, _ in _LIB_STATE}
    for h, name, obj, initial in _LIB_STATE:
        if type(obj) is list:
            obj[:] = initial
        else:
            obj.clear()
            obj.update(initial)
    # containers that appeared later (e.g. a cache added to a module or class at run time)
    for h in {h for h, _, _, _ in _LIB_STATE}:
        for name, val in list(vars(h).items()):
            if not name.startswith("__") and type(val) in (dict, list, set) and (id(h), name) not in known:
                val.clear()


def fresh_loop():
    """New virtual loop installed as the running loop; process-global library state reset."""
    from asyncio_taskpool import pool as poolmod

    _restore_library_state()
    poolmod.BaseTaskPool._pools.clear()
    loop = VLoop()
    events._set_running_loop(loop)
    # BaseEventLoop schedules one handle of its own when it starts running
    # (coroutine origin tracking); there is none here because run_forever is never
    # called, but drain defensively so that "idle" means idle.
    loop.run_idle()
    return loop


def release_loop(loop):
    events._set_running_loop(None)


def teardown_loop(loop):
    """Finish every task of an execution before its world is abandoned: coroutines that are merely dropped would be
    finalised by the garbage collector during a LATER execution, where library code running in their `finally`
    blocks could touch the then-current loop (observed with a seeded change that shields callbacks)."""
    try:
        for _ in range(12):
            live = loop.live_tasks()
            if not live:
                break
            for t in live:
                t.cancel()
            loop.run_idle(maxit=500)
    except Exception:  # noqa: BLE001
        pass
    try:
        loop._ready.clear()
    except Exception:  # noqa: BLE001
        pass
    events._set_running_loop(None)


# ---------------------------------------------------------------------------------------
# deterministic gather: the library feeds `gather` from sets of Tasks, whose iteration
# order depends on object addresses.  gather's outcome is symmetric in argument order
# except for which of several *already finished* failing children is reported; the
# harness owns that order (sorted by task name, or reversed: a configuration axis).
import asyncio.tasks as _at

_real_gather = _at.gather
GATHER_REVERSED = False


def _is_set_derived(a):
    """Spawner ("meta") tasks reach gather() from sets; pool tasks ('<pool>_Task-<id>') from insertion-ordered dicts."""
    try:
        return "_Task-" not in a.get_name()
    except AttributeError:
        return False


def _sorted_gather(*aws, return_exceptions=False):
    # keep the library's argument order except among the set-derived awaitables, whose mutual order depends on
    # object addresses in the real program: those are put into a canonical order (by task name) in place
    slots = [i for i, a in enumerate(aws) if _is_set_derived(a)]
    ordered = sorted((aws[i] for i in slots), key=lambda a: a.get_name(), reverse=GATHER_REVERSED)
    out = list(aws)
    for i, a in zip(slots, ordered):
        out[i] = a
    return _real_gather(*out, return_exceptions=return_exceptions)


def install_gather_wrapper():
    from asyncio_taskpool import pool as poolmod

    poolmod.gather = _sorted_gather
