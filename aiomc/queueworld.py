"""C20: the Queue context manager on the virtual loop (same explorer, own small world)."""
import asyncio

from asyncio_taskpool.queue_context import Queue

from .vloop import fresh_loop, release_loop, teardown_loop


class BodyError(Exception):
    tag = ("body",)


class QueueWorld:
    """consumers: `async with q as item:` (body waits on a gate, returns or raises);
    actors: put / cancel(consumer) / join, placed at every boundary."""

    def __init__(self, scen, ctl):
        self.scen = scen
        self.ctl = ctl
        self.dead = False
        self.loop = fresh_loop()
        self.q = Queue(maxsize=scen.get("maxsize", 0))
        self.producers = {}
        self.put_started = 0
        self.viol = []
        self.puts = 0
        self.taken = 0
        self.exits = 0
        self.items_seen = []
        self.gates = {}
        self.tasks = {}
        self.pcs = [0] * len(scen["actors"])
        self.join_task = None
        self.join_called = False
        self.Z = False
        self.more_joins = []  # further join() callers: [task, Z]
        self.in_block = set()
        self.cancelled_waiting = []
        for c in range(scen["consumers"]):
            self.tasks[c] = self.loop.create_task(self.consumer(c), name=f"cons{c}")

    def v(self, key, *detail):
        self.viol.append(("C20", key) + detail)

    async def consumer(self, c):
        for r in range(self.scen.get("rounds", 1)):
            async with self.q as item:
                self.taken += 1
                self.items_seen.append(item)
                self.in_block.add(c)
                self.sample("block_enter")
                f = self.loop.create_future()
                self.gates[(c, r)] = f
                try:
                    out = await f
                    if out == "exc":
                        raise BodyError()
                    if out == "group":
                        raise ExceptionGroup("several failures in the block", [BodyError(), BodyError()])
                finally:
                    self.gates.pop((c, r), None)
                    self.in_block.discard(c)
                    self.exits += 1

    # ------------------------------------------------------------------ oracle
    def sample(self, where):
        if self.dead:
            return
        if self.join_called and self.puts == self.exits:
            # every item put so far has been taken and its block has exited
            self.Z = True
        if self.join_task is not None and self.join_task.done() and not self.Z:
            self.v("join() returned although an item put before was not taken or its block had not exited",
                   self.puts, self.taken, self.exits, where)
        for j in self.more_joins:
            if self.puts == self.exits:
                j[1] = True
            if j[0].done() and not j[1]:
                self.v("join() returned although an item put before was not taken or its block had not exited",
                       self.puts, self.taken, self.exits, where, "further caller")
        if self.taken > self.puts:
            self.v("more items handed to blocks than were put", self.taken, self.puts)
        if len(set(self.items_seen)) != len(self.items_seen):
            self.v("an item was handed to two blocks", self.items_seen)
        for c, t in self.tasks.items():
            if t.done() and not t.cancelled():
                e = t.exception()
                if isinstance(e, ValueError):
                    self.v("item marked processed more than once (task_done() raised ValueError)", c)
                elif e is not None and not isinstance(e, (BodyError, ExceptionGroup)):
                    self.v("consumer failed with an unexpected exception", c, type(e).__name__)

    # ------------------------------------------------------------------ explorer interface
    def idle(self):
        return not self.loop._ready

    def ready(self):
        return self.loop._ready

    def roots(self):
        tasks = sorted(self.loop.live_tasks(), key=lambda t: t.get_name())
        return [tasks, self.q, self]

    def __canon__(self):
        return (
            self.puts, self.put_started, sorted(self.producers.items()),
            self.taken, self.exits, sorted(self.gates.items()), tuple(self.pcs), len(self.viol),
            self.join_called, self.Z, self.join_task, [(j[0], j[1]) for j in self.more_joins], sorted(self.in_block),
            sorted((c, t) for c, t in self.tasks.items()), tuple(self.items_seen),
        )

    def observation(self):
        return repr((self.puts, self.taken, self.exits, self.join_task is not None and self.join_task.done(),
                     sorted((c, t.done(), t.cancelled() if t.done() else None) for c, t in self.tasks.items())))

    def release(self):
        self.dead = True
        teardown_loop(self.loop)

    def boundary(self):
        self.sample("boundary")
        if self.idle() and self.join_task is not None and self.Z and not self.join_task.done():
            self.v("join() still waiting at idle although every item put had been taken and its block had exited",
                   self.puts, self.taken, self.exits)
        if self.idle():
            for j in self.more_joins:
                if j[1] and not j[0].done():
                    self.v("join() still waiting at idle although every item put had been taken and its block had exited",
                           self.puts, self.taken, self.exits, "further caller")
        if self.idle() and self.puts > self.taken:
            waiting = sorted(c for c, t in self.tasks.items() if not t.done() and c not in self.in_block)
            if waiting:
                self.v("an item that was put is never handed to a consumer that waits for one (item lost)",
                       self.puts, self.taken, waiting)
        acts = []
        if self.loop._ready:
            acts.append(("step",))
        for i, prog in enumerate(self.scen["actors"]):
            if self.pcs[i] < len(prog) and self.enabled(prog[self.pcs[i]]):
                acts.append(("op", i))
        outs = self.scen.get("outcomes", ["ret", "exc"])
        for gk in sorted(self.gates):
            if not self.gates[gk].done():
                for o in outs:
                    acts.append(("fin", gk, o))
        return acts

    def enabled(self, op):
        if op[0] == "cancel":
            return not self.tasks[op[1]].done()
        if op[0] == "put":
            return not self.q.full()
        if op[0] == "cancel_prod":
            return op[1] in self.producers and not self.producers[op[1]].done()
        return True

    def describe(self, act):
        if act[0] == "op":
            return f"op[{act[1]}] {self.scen['actors'][act[1]][self.pcs[act[1]]]!r}"
        if act[0] == "fin":
            return f"fin{act[1]}={act[2]}"
        return "step"

    def do(self, act):
        if act[0] == "step":
            self.loop.step()
            return
        if act[0] == "fin":
            self.gates[act[1]].set_result(act[2])
            return
        i = act[1]
        op = self.scen["actors"][i][self.pcs[i]]
        self.pcs[i] += 1
        if op[0] == "put":
            self.q.put_nowait(("item", self.put_started))
            self.put_started += 1
            self.puts += 1
        elif op[0] == "aput":
            # a producer that may have to wait for room in a bounded queue: the item counts as put when put() returns
            n = self.put_started
            self.put_started += 1

            async def produce(n=n):
                await self.q.put(("item", n))
                self.puts += 1

            t = asyncio.Task(produce(), loop=self.loop, eager_start=True, name=f"prod{n}")
            self.loop.tasks.append(t)
            self.producers[n] = t
        elif op[0] == "cancel_prod":
            self.producers[op[1]].cancel()
        elif op[0] == "cancel":
            self.tasks[op[1]].cancel()
        elif op[0] == "join" and self.join_task is not None:
            # a further caller of join() while the first one may still be waiting
            j = [None, self.puts == self.exits]
            j[0] = asyncio.Task(self.q.join(), loop=self.loop, eager_start=True, name=f"join{len(self.more_joins) + 2}")
            self.loop.tasks.append(j[0])
            self.more_joins.append(j)
            self.sample("after_join_call")
        elif op[0] == "join":
            self.join_called = True
            self.sample("join_call")
            self.join_task = asyncio.Task(self.q.join(), loop=self.loop, eager_start=True, name="join")
            self.loop.tasks.append(self.join_task)
            self.sample("after_join_call")

    def terminal(self):
        self.sample("terminal")
