"""Oracles C01..C15 as monitors over PoolWorld (public pool API + harness records only)."""
import asyncio

from asyncio_taskpool import exceptions as X

from .poolworld import INF, Monitor, split_op

ORDER = {"running": 0, "cancelled": 1, "ended": 2, "unknown": 3}


def pools_of(w):
    return range(len(w.pools))


class C01(Monitor):
    """live workers <= size, num_running <= size at every sample point; is_full at quiet idle."""

    PROP = "C01"

    def sample(self, kind, key, tag):
        w = self.w
        for p in pools_of(w):
            if p in w.resized:
                continue  # C01 fixes the size while tasks are in flight; re-assignment is C15's subject
            size = w.cfg_size[p]
            if w.live[p] > size:
                self.v("live workers exceed pool size", p, w.live[p], size, kind)
            nr = w.pools[p].num_running
            if nr > size:
                self.v("num_running exceeds pool size", p, nr, size, kind)

    def quiet_idle(self):
        w = self.w
        for p in pools_of(w):
            if p in w.resized:
                continue
            size = w.cfg_size[p]
            pool = w.pools[p]
            exp = pool.num_running == size
            if pool.is_full != exp:
                self.v("is_full != (num_running == size) at quiet idle", p, pool.is_full, pool.num_running, size)
            elif pool.is_full != (w.live[p] == size) and not is_absorbing(w):
                # the pool's own counter may be what is wrong: compare with the workers the harness knows to be in flight
                self.v("is_full != (tasks in flight == size) at quiet idle", p, pool.is_full, w.live[p], size)


class C02(Monitor):
    """no task / capacity lost: accounting at quiet idle, exactly one end callback, capacity probe."""

    PROP = "C02"

    def sample(self, kind, key, tag):
        if kind == "ecb":
            if self.w.cb_begun[("ecb", key)] > 1:
                self.v("end callback fired more than once", key)

    def quiet_idle(self):
        w = self.w
        for p in pools_of(w):
            nr = w.pools[p].num_running
            if nr != w.live[p]:
                self.v("num_running != workers in flight at quiet idle", p, nr, w.live[p])
        absorbing = is_absorbing(w)
        if not absorbing:
            for k in w.cancel_targets:
                if k in w.started and k not in w.exited:
                    self.v("a task whose cancellation was accepted is still running at the next quiet idle", k)

    def blocked_ok(self, i):
        w = self.w
        op = w.scen["actors"][i][w.pcs[i] - 1]
        name, pos, opts = split_op(op)
        p = opts.get("p", 0)
        if name == "until_closed":
            return p not in w.closed_pools
        if name == "gac" and w.cfg_size[p] == 0:
            return True
        return False

    def probe(self, p):
        w = self.w
        size = w.cfg_size[p]
        if size == INF or p in w.closing:
            return
        free = max(0, size - w.live[p])
        got = w.run_capacity_probe(p, free)
        if got != free:
            self.v("capacity probe: free slots != size - in flight", p, "started", got, "expected", free)

    def terminal(self):
        w = self.w
        if w.terminated:
            return
        for i, t in w.drivers.items():
            if not t.done() and not self.blocked_ok(i):
                self.v("operation never returns", i, w.scen["actors"][i][w.pcs[i] - 1])
        for p in pools_of(w):
            if w.pools[p].num_running != 0:
                self.v("terminal: num_running != 0 although every worker finished", p, w.pools[p].num_running)
        for tag, ids in w.created.items():
            req = w.reqs[tag]
            ek = req.opts.get("ecb", w.scen.get("ecb", "none")) if req.kind != "start" else None
            if req.kind == "start":
                ek = w.scen["pools"][req.p].get("ecb", w.scen.get("ecb", "none"))
            if ek == "none":
                continue
            for t in ids:
                n = w.cb_done[("ecb", (req.p, t))]
                if w.cancelled_ops:
                    n += w.cb_interrupted[("ecb", (req.p, t))]  # interrupted by the harness cancelling a flush() caller
                if n != 1:
                    self.v("task did not get exactly one end callback", (req.p, t), n)

    def terminal_probe(self):
        w = self.w
        if w.terminated:
            return
        for p in pools_of(w):
            self.probe(p)


class C03(Monitor):
    """exact lifecycle: one of running/cancelled/ended, monotone, counters add up, callbacks exact/ordered."""

    PROP = "C03"

    def __init__(self, world):
        super().__init__(world)
        self.cls = {}

    def __canon__(self):
        return sorted(self.cls.items())

    def _cb_kind(self, which, key):
        w = self.w
        for tag, ids in w.created.items():
            req = w.reqs[tag]
            if req.p == key[0] and key[1] in ids:
                if req.kind == "start":
                    return w.scen["pools"][req.p].get(which, w.scen.get(which, "none"))
                return req.opts.get(which, w.scen.get(which, "none"))
        return w.scen.get(which, "none")

    def sample(self, kind, key, tag):
        w = self.w
        if kind in ("ecb", "ccb"):
            self.at_callback(kind, key)
        pending = None
        for p in pools_of(w):
            pool = w.pools[p]
            det = {"running": 0, "cancelled": 0, "ended": 0, "unknown": 0}
            amb = 0
            for t in sorted(w.all_created(p)):
                k = (p, t)
                if k in w.started and k not in w.exited:
                    c = "running"
                elif k in w.exited:
                    c = w.classify(k)
                    if c == "running":
                        self.v("worker exited but task still counts as running (cancellable)", k, kind)
                elif k not in w.cancel_targets:
                    c = "running"
                else:
                    # never started and aimed at by a cancellation: only probe once the
                    # task object is finished (probing a pending one would cancel it again)
                    if pending is None:
                        pending = {t_.get_name() for t_ in w.loop.live_tasks()}
                    if f"{pool}_Task-{t}" in pending:
                        amb += 1
                        continue
                    c = w.classify(k)
                prev = self.cls.get(k, "running")
                if ORDER[c] < ORDER[prev]:
                    self.v("task state moved backwards", k, prev, c, kind)
                if c == "unknown" and prev != "unknown" and not (w.flushes_begun[p] or p in w.closing):
                    self.v("task forgotten although no flush/close was requested", k, kind)
                self.cls[k] = c
                det[c] += 1
            got = (pool.num_running, pool.num_cancelled, pool.num_ended)
            want = (det["running"], det["cancelled"], det["ended"])
            if amb == 0:
                if got != want:
                    self.v("num_running/num_cancelled/num_ended != per-task states", p, got, want, kind)
            else:
                if sum(got) != sum(want) + amb or any(g < x for g, x in zip(got, want)):
                    self.v("counters inconsistent with per-task states", p, got, want, amb, kind)

    def at_callback(self, which, key):
        w = self.w
        if w.cb_begun[(which, key)] != 1:
            self.v(f"{which} invoked more than once", key, w.cb_begun[(which, key)])
        never_started = key not in w.started
        if not never_started and key not in w.exited:
            self.v(f"{which} invoked before the coroutine finished", key)
        own = w.classify(key)
        if which == "ecb":
            if own != "ended":
                self.v("end callback: own id does not count as ended", key, own)
            by_cancel = w.exited.get(key) == "cancelled" or never_started
            ccb_done = w.cb_done[("ccb", key)] + (w.cb_interrupted[("ccb", key)] if w.cancelled_ops else 0)
            if by_cancel and self._cb_kind("ccb", key) != "none" and ccb_done != 1:
                self.v("end callback before/without completed cancel callback", key, w.cb_done[("ccb", key)])
        else:
            if own != "cancelled":
                self.v("cancel callback: own id does not count as cancelled", key, own)
            if w.cb_begun[("ecb", key)]:
                self.v("cancel callback after end callback", key)
            if not never_started and w.exited.get(key) != "cancelled":
                self.v("cancel callback although the coroutine was not cancelled", key, w.exited.get(key))

    def terminal(self):
        w = self.w
        if w.terminated:
            return
        for p in pools_of(w):
            for t in sorted(w.all_created(p)):
                k = (p, t)
                by_cancel = w.exited.get(k) == "cancelled" or k not in w.started
                if self._cb_kind("ecb", k) != "none":
                    n = w.cb_done[("ecb", k)]
                    if w.cb_interrupted[("ecb", k)] and w.cancelled_ops:
                        n += w.cb_interrupted[("ecb", k)]  # interrupted by the harness cancelling a flush()/... caller
                    if n != 1 or w.cb_begun[("ecb", k)] != 1:
                        self.v("end callback not run exactly once to completion", k, n, w.cb_interrupted[("ecb", k)])
                if self._cb_kind("ccb", k) != "none":
                    n = w.cb_done[("ccb", k)]
                    if w.cb_interrupted[("ccb", k)] and w.cancelled_ops:
                        n += w.cb_interrupted[("ccb", k)]
                    want = 1 if by_cancel else 0
                    if n != want or w.cb_begun[("ccb", k)] != want:
                        self.v("cancel callback count wrong", k, n, want, w.exited.get(k), w.cb_interrupted[("ccb", k)])




def is_absorbing(w):
    """some worker of the scenario swallows a CancelledError and carries on"""
    return (w.scen.get("worker") == "absorb" or any(sp.get("worker") == "absorb" for sp in w.scen["pools"])
            or any((r.opts or {}).get("worker") == "absorb" for r in w.reqs.values()))


def started_of(w, tag):
    r = w.reqs.get(tag)
    if r is not None and r.kind == "start":
        # SimpleTaskPool workers share one function: membership is known through the group only
        return sorted((r.p, t) for t in w.created.get(tag, ()) if (r.p, t) in w.started)
    return sorted(k for k, v in w.started.items() if v[0] == tag)


def live_of(w, tag):
    return [k for k in started_of(w, tag) if k not in w.exited]


def skipped_of(w, tag):
    """call indices of the request that raised at the call site (SimpleTaskPool: one function per pool)"""
    r = w.reqs[tag]
    if r.kind == "start":
        return w.skipped.get(w.simple_reqs[r.p].tag, ())
    return w.skipped.get(tag, ())


def never_started_cancelled(w, tag):
    req = w.reqs[tag]
    return {t for t in w.created.get(tag, ()) if (req.p, t) not in w.started and (req.p, t) in w.cancel_targets}


class C04(Monitor):
    """apply/start: exactly num invocations, right args, own task, in the returned group."""

    PROP = "C04"

    def reqs(self):
        return [(t, r) for t, r in self.w.reqs.items() if r.kind in ("apply", "start")]

    def sample(self, kind, key, tag):
        w = self.w
        if w.dup_keys:
            self.v("two invocations ran in the same task", w.dup_keys[0])
        for t, r in self.reqs():
            n = len(started_of(w, t))
            if n > r.num or w.calls[t] > r.num:
                self.v("more invocations than requested", t, n, w.calls[t], r.num)
        if kind == "w_start" and tag not in w.reqs and key[0] in w.simple_reqs:
            r = w.simple_reqs[key[0]]
            _, args, kwargs = w.started[key]
            eargs = r.args if r.args is not None else ()
            ekw = r.kwargs if r.kwargs is not None else {}
            if len(args) != len(eargs) or any(a is not b for a, b in zip(args, eargs)):
                self.v("invocation received other positional arguments", key, args, eargs)
            if set(kwargs) != set(ekw) or any(kwargs[k] is not ekw[k] for k in ekw):
                self.v("invocation received other keyword arguments", key, kwargs, ekw)
            owners = [t for t, rr in w.reqs.items() if rr.kind == "start" and rr.p == key[0]
                      and t not in w.group_cancelled and key[1] in w.created.get(t, ())]
            if len(owners) != 1 and key[0] not in w.closed_pools and not any(
                    rr.kind == "start" and rr.p == key[0] and t in w.group_cancelled for t, rr in w.reqs.items()):
                self.v("task of a start() request is not in exactly one start group", key, owners)
        if kind == "w_start" and tag in w.reqs and w.reqs[tag].kind in ("apply", "start"):
            r = w.reqs[tag]
            _, args, kwargs = w.started[key]
            eargs = r.args if r.args is not None else ()
            ekw = r.kwargs if r.kwargs is not None else {}
            if len(args) != len(eargs) or any(a is not b for a, b in zip(args, eargs)):
                self.v("invocation received other positional arguments", key, args, eargs)
            if set(kwargs) != set(ekw) or any(kwargs[k] is not ekw[k] for k in ekw):
                self.v("invocation received other keyword arguments", key, kwargs, ekw)
            if tag not in w.group_cancelled and key[0] not in w.closed_pools:
                try:
                    ids = w.pools[r.p].get_group_ids(r.group)
                except X.InvalidGroupName:
                    ids = None
                if ids is None or key[1] not in ids:
                    self.v("task of the request is not in the group returned by the call", key, r.group, ids)

    def terminal(self):
        w = self.w
        if w.terminated:
            return
        for t, r in self.reqs():
            if t in w.group_cancelled or w.cfg_size[r.p] == 0:
                continue
            sk = w.skipped.get(t, ())
            if r.kind == "start":
                # one function per SimpleTaskPool: fault cells use a single start() request
                sk = w.skipped.get(w.simple_reqs[r.p].tag, ())
            want = r.num - len(sk)
            n = len(started_of(w, t)) + len(never_started_cancelled(w, t))
            if n != want:
                self.v("number of invocations != num", t, n, want)
            if r.p not in w.closed_pools and r.p not in w.closing:
                try:
                    ids = w.pools[r.p].get_group_ids(r.group)
                except X.InvalidGroupName:
                    self.v("group of a live request unknown", t, r.group)
                    continue
                mine = {k[1] for k in started_of(w, t)} | never_started_cancelled(w, t)
                if ids != mine:
                    self.v("group ids != tasks created for the request", t, sorted(ids), sorted(mine))


class C05(Monitor):
    """map family: element-wise, ordered, bounded by num_concurrent, lazy, work-conserving."""

    PROP = "C05"

    def maps(self):
        return [(t, r) for t, r in self.w.reqs.items() if r.kind == "map"]

    @staticmethod
    def element_index(r, args, kwargs):
        """Index of the element a worker received, or None if it has not the right star form."""
        try:
            if r.stars == 0:
                (el,) = args
                ok = not kwargs
            elif r.stars == 1:
                el, p1 = args
                ok = p1 == "p1" and not kwargs
            else:
                ok = not args and set(kwargs) == {"x", "k"} and kwargs["k"] == "v"
                el = kwargs["x"]
            if ok and el[0] == "el" and el[1] == r.tag:
                return el[2]
        except (ValueError, TypeError, KeyError, IndexError):
            pass
        return None

    def sample(self, kind, key, tag):
        w = self.w
        for t, r in self.maps():
            lv = len(live_of(w, t))
            if lv > r.nc:
                self.v("more than num_concurrent tasks of one map call running", t, lv, r.nc, kind)
            if t not in w.group_cancelled and r.p not in w.closed_pools:
                made = len(w.created.get(t, ())) + len(w.skipped.get(t, ()))
                if w.pulled[t] > made + 1:
                    self.v("iterable advanced more than one element ahead", t, w.pulled[t], made, kind)
        if kind == "w_start" and tag in w.reqs and w.reqs[tag].kind == "map":
            r = w.reqs[tag]
            _, args, kwargs = w.started[key]
            j = self.element_index(r, args, kwargs)
            if j is None:
                self.v("worker did not receive an element in the right star form", key, args, kwargs)
                return
            for k in started_of(w, tag):
                if k == key:
                    continue
                jk = self.element_index(r, w.started[k][1], w.started[k][2])
                if jk is None:
                    continue
                if (k[1] < key[1]) != (jk < j):
                    self.v("elements not handed out in iteration order / repeated", tag, (k, jk), (key, j))

    def quiet_idle(self):
        w = self.w
        for t, r in self.maps():
            if t in w.group_cancelled or r.p in w.closed_pools:
                continue
            made = len(w.created.get(t, ())) + len(w.skipped.get(t, ()))
            remain = r.num - made
            pool = w.pools[r.p]
            if remain > 0 and not pool.is_full:
                lv = len(live_of(w, t))
                if lv != r.nc:
                    self.v("not work-conserving: elements remain, pool has room, but fewer than num_concurrent run",
                           t, lv, r.nc, remain)

    def terminal(self):
        w = self.w
        if w.terminated:
            return
        for t, r in self.maps():
            if t in w.group_cancelled or w.cfg_size[r.p] == 0:
                continue
            bad = w.skipped.get(t, set())
            got = [self.element_index(r, w.started[k][1], w.started[k][2]) for k in started_of(w, t)]
            want = [j for j in range(r.num) if j not in bad]
            gaps = len(never_started_cancelled(w, t))
            if gaps == 0:
                if got != want:
                    self.v("elements processed != elements of the iterable (in order)", t, got, want)
            else:
                if len(got) + gaps != len(want) or any(g not in want for g in got) or got != sorted(set(got)):
                    self.v("elements processed inconsistent with the iterable", t, got, want, gaps)
            if w.pulled[t] != r.num:
                self.v("iterable not consumed exactly", t, w.pulled[t], r.num)


class C07(Monitor):
    """cancel_group / cancel_all: complete, contained, group forgotten."""

    PROP = "C07"

    def __init__(self, world):
        super().__init__(world)
        self.cut = {}  # tag -> (n started, pulled, live keys at the op)
        self.before = None

    def __canon__(self):
        return sorted((t, v[0], v[1], sorted(v[2].items())) for t, v in self.cut.items())

    def public_obs(self, p):
        w = self.w
        pool = w.pools[p]
        groups = {}
        for t, r in w.reqs.items():
            if r.p == p and t not in w.group_cancelled:
                try:
                    groups[t] = sorted(pool.get_group_ids(r.group))
                except X.InvalidGroupName:
                    groups[t] = None
        return (pool.num_running, pool.num_cancelled, pool.num_ended, pool.is_locked, pool.is_full, groups,
                len(w.started), len(w.exited), dict(w.pulled), len(w.loop._ready))

    def before_op(self, i, op):
        name, pos, opts = split_op(op)
        p = opts.get("p", 0)
        self.before = self.public_obs(p)
        if name in ("cancel_group", "cancel_all"):
            self.pre_groups = {t: r.group for t, r in self.w.reqs.items() if t not in self.w.group_cancelled}

    def after_op(self, i, op, out):
        w = self.w
        name, pos, opts = split_op(op)
        p = opts.get("p", 0)
        if name == "cancel_group" and pos[0].startswith("?"):
            if not w.raised(out, X.InvalidGroupName):
                self.v("cancel_group(unknown name) did not raise InvalidGroupName", out)
            if self.public_obs(p) != self.before:
                self.v("cancel_group(unknown name) changed the pool", self.before, self.public_obs(p))
            return
        if name not in ("cancel_group", "cancel_all"):
            if name in ("apply", "map", "start") and opts.get("reuse") and out[0] != "ok":
                self.v("name of a cancelled group cannot be re-used", op, out)
            return
        if out[0] != "ok":
            self.v(f"{name} raised", out)
            return
        tags = [pos[0]] if name == "cancel_group" else [t for t in self.pre_groups if w.reqs[t].p == p]
        for t in tags:
            if t in self.cut:
                continue
            suspended = set(live_of(w, t))
            cur = asyncio.current_task()
            if cur is not None:
                # the op was issued from user code: the issuing worker itself is running, not
                # suspended; it may finish without another suspension point
                suspended = {k for k in suspended if f"{w.pools[k[0]]}_Task-{k[1]}" != cur.get_name()}
            self.cut[t] = (len(started_of(w, t)), w.pulled[t], {k: w.cancel_seen[k] for k in suspended})
            try:
                ids = w.pools[p].get_group_ids(self.pre_groups[t])
                self.v("cancelled group still reported by get_group_ids", t, sorted(ids))
            except X.InvalidGroupName:
                pass

    def sample(self, kind, key, tag):
        w = self.w
        for t, (n, pulled, _) in self.cut.items():
            if len(started_of(w, t)) != n:
                self.v("a task of a cancelled group started afterwards", t, len(started_of(w, t)), n, kind)
            if w.pulled[t] != pulled:
                self.v("argument iterable of a cancelled group advanced afterwards", t, w.pulled[t], pulled, kind)
        if kind == "w_cancel":
            if tag not in w.group_cancelled and key not in w.cancel_targets:
                self.v("task of an untouched group observed a cancellation", key, tag)

    def quiet_idle(self):
        w = self.w
        for t, (n, pulled, live) in self.cut.items():
            absorbing = is_absorbing(w)
            for k, seen_before in live.items():
                if k not in w.exited and not absorbing:
                    self.v("task of a cancelled group still running at the next quiet idle", k)
                elif w.cancel_seen[k] <= seen_before and not (k in w.exited and w.exited[k] != "cancelled" and absorbing and w.cancel_seen[k] >= 2):
                    self.v("suspended task of a cancelled group saw no (further) CancelledError", k, w.exited.get(k), w.cancel_seen[k], seen_before)
            if not is_absorbing(w):
                for k in started_of(w, t):
                    if k not in w.exited:
                        self.v("task of a cancelled group still running at quiet idle", k)


class C08(Monitor):
    """gather_and_close waits for everything, then closes for good."""

    PROP = "C08"

    def failing_possible(self):
        w = self.w
        if any(h == "exc" for h in w.exited.values()):
            return True
        kinds = {w.scen.get("ecb", "none"), w.scen.get("ccb", "none")}
        for r in w.reqs.values():
            kinds |= {r.opts.get("ecb", "none"), r.opts.get("ccb", "none")} if r.opts else set()
        return bool(kinds & {"raise", "araise", "praise", "apraise"})

    def driver_done(self, i, op, out):
        w = self.w
        name, pos, opts = split_op(op)
        p = opts.get("p", 0)
        pool = w.pools[p]
        if name == "gac":
            if out[0] == "ok":
                if w.live[p]:
                    self.v("gather_and_close returned while workers are still running", p, w.live[p])
                for t, r in w.reqs.items():
                    if r.p != p or t in w.group_cancelled:
                        continue
                    made = len(w.created.get(t, ())) + len(skipped_of(w, t))
                    if made != r.num:
                        self.v("gather_and_close returned before a request was fully spawned", t, made, r.num)
                    if r.kind == "map" and w.pulled[t] != r.num:
                        self.v("gather_and_close returned before the iterable was consumed", t, w.pulled[t], r.num)
                got = (pool.num_running, pool.num_cancelled, pool.num_ended)
                if got != (0, 0, 0):
                    self.v("closed pool still holds tasks", p, got)
                if w.cb_open:
                    self.v("gather_and_close returned while a callback is still in progress", w.cb_open)
            elif not self.failing_possible() or out[1] == "CancelledError":
                self.v("gather_and_close raised although no task or callback raised", out)
        if name == "until_closed":
            if p not in w.closed_pools and not self.gac_failed(p):
                self.v("until_closed() released before the pool was closed", p)

    def gac_failed(self, p):
        # a gather_and_close that raised leaves the pool state undefined by the property
        w = self.w
        for (i, pc), out in w.results.items():
            op = w.scen["actors"][i][pc]
            if op[0] == "gac" and split_op(op)[2].get("p", 0) == p and out[0] == "raised":
                return True
        return False

    def after_op(self, i, op, out):
        w = self.w
        name, pos, opts = split_op(op)
        p = opts.get("p", 0)
        if name in ("apply", "map", "start") and p in w.closed_pools:
            if not w.raised(out, X.PoolIsClosed):
                self.v("spawn request on a closed pool did not raise PoolIsClosed", op, out)

    def quiet_idle(self):
        w = self.w
        for i, t in w.drivers.items():
            op = w.scen["actors"][i][w.pcs[i] - 1]
            name, pos, opts = split_op(op)
            if name == "until_closed" and opts.get("p", 0) in w.closed_pools and not t.done():
                self.v("until_closed() still waiting at idle after the pool was closed", i)

    def terminal(self):
        w = self.w
        if w.terminated:
            return
        for i, t in w.drivers.items():
            op = w.scen["actors"][i][w.pcs[i] - 1]
            name, pos, opts = split_op(op)
            if name == "gac" and not t.done() and w.cfg_size[opts.get("p", 0)] != 0:
                self.v("gather_and_close never returns although all work finished", i)



import itertools
import re


class C06(Monitor):
    """cancel(*ids): exact and all-or-nothing; evaluated as a terminal branch at every boundary."""

    PROP = "C06"

    def __init__(self, world):
        super().__init__(world)
        self.must_not_start = set()  # named in an accepted cancel() before their first step
        self.must_see = {}  # named in an accepted cancel() while suspended: key -> CancelledErrors seen before
        self.self_named = {}  # tasks that named themselves in an accepted cancel()

    def __canon__(self):
        return (sorted(self.must_not_start), sorted(self.must_see.items()), sorted(self.self_named.items()))

    def after_op(self, i, op, out):
        # cancel() calls made by the scenario itself (not the terminal probe): a call that returned without error has
        # cancelled every task it named
        w = self.w
        name, pos, opts = split_op(op)
        if name != "cancel" or out[0] != "ok":
            return
        p = opts.get("p", 0)
        for t in out[1]:
            k = (p, t)
            if k not in w.started:
                self.must_not_start.add(k)
            elif k not in w.exited:
                cur = asyncio.current_task()
                if cur is not None and cur.get_name() == f"{w.pools[p]}_Task-{t}":
                    # issued by that very worker from its own code: it is running, not suspended; it may finish without
                    # suspending again - but if it suspends, the cancellation arrives there
                    self.self_named.setdefault(k, w.cancel_seen[k])
                    continue
                self.must_see.setdefault(k, w.cancel_seen[k])

    def sample(self, kind, key, tag):
        if kind == "w_start" and key in self.must_not_start:
            self.v("a task named in a cancel() that returned without error before the task's first step ran its body anyway", key)
        if kind == "w_yielded" and key in self.self_named and self.w.cancel_seen[key] <= self.self_named[key]:
            self.v("a task that named itself in a cancel() that returned without error resumed from its next suspension point uncancelled", key)

    def quiet_idle(self):
        w = self.w
        for k, seen0 in self.must_see.items():
            if k not in w.exited and w.cancel_seen[k] <= seen0:
                self.v("a suspended task named in a cancel() that returned without error never observed a CancelledError", k)

    def probe_cancel(self, p, maxlen=2):
        w = self.w
        pool = w.pools[p]
        created = sorted(w.all_created(p))
        never = (max(created) if created else 0) + 7
        state = {}
        pending = {t_.get_name() for t_ in w.loop.live_tasks()}
        for t in created:
            k = (p, t)
            if k in w.started and k not in w.exited:
                state[t] = "running"
            elif k in w.exited:
                # the harness' own knowledge first: a task whose coroutine ended by cancellation and whose
                # cancel callback has begun (but not its end callback) counts as cancelled; one whose end
                # callback has begun counts as ended (or is forgotten after a flush)
                if w.cb_begun[("ecb", k)]:
                    st = w.classify(k)
                    if st not in ("ended", "unknown"):
                        self.v("task whose end callback has run is not ended/forgotten for cancel()", k, st)
                        return
                    if st == "unknown" and k not in w.flush_covered and p not in w.closing:
                        # only flush() (called after the task finished) and gather_and_close() forget tasks
                        self.v("ended task unknown to cancel() although no flush() was called since it ended", k)
                        return
                    state[t] = st
                elif w.exited[k] == "cancelled" and w.cb_begun[("ccb", k)]:
                    state[t] = "cancelled"
                else:
                    state[t] = w.classify(k)
                    if state[t] == "running":
                        self.v("task whose coroutine has finished is still cancellable", k)
                        return
            elif k not in w.cancel_targets:
                state[t] = "running"
            elif f"{pool}_Task-{t}" not in pending:
                state[t] = w.classify(k)
            # else: created, never started, cancellation pending: state not observable without
            # disturbing it -> not part of the alphabet in this state
        state[never] = "unknown"
        ids = sorted(state)
        tuples = [tp for n in range(1, maxlen + 1) for tp in itertools.product(ids, repeat=n)]
        if maxlen < 3:
            # always include the length-3 tuples that name some id twice (misaligned bookkeeping of repeats)
            tuples += [tp for tp in itertools.product(ids, repeat=3) if len(set(tp)) == 2]
        ch = w.ctl.choose(len(tuples), free=True)
        tup = tuples[ch]
        w.ctl.actions.append(f"  cancel{tup} in state {state}")
        seen0 = dict(w.cancel_seen)
        started0 = set(w.started)
        live0 = {k for k in w.started if k not in w.exited}
        earlier = set(w.cancel_targets)
        try:
            pool.cancel(*tup)
            out = "ok"
        except X.AlreadyCancelled:
            out = "cancelled"
        except X.AlreadyEnded:
            out = "ended"
        except X.InvalidTaskID:
            out = "unknown"
        except Exception as e:
            out = "other:" + type(e).__name__
        w.probing = True  # the monitors of other properties do not apply to the probe's aftermath
        w.loop.run_idle()
        w.probing = False
        offending = [state[t] for t in tup if state[t] != "running"]
        delta = {k: w.cancel_seen[k] - seen0.get(k, 0) for k in set(w.cancel_seen) | live0}
        targets = {(p, t) for t in tup}
        if not offending:
            if out != "ok":
                self.v("cancel() of running tasks raised", tup, out, state)
            for k in targets:
                if k in live0:
                    if delta.get(k, 0) != 1:
                        self.v("cancelled task did not observe exactly one CancelledError", k, delta.get(k, 0), tup)
                elif k not in started0 and k in w.started:
                    self.v("task cancelled before its first step began anyway", k, tup)
            for k, d in delta.items():
                if k not in targets and d and k not in earlier:
                    self.v("cancel() disturbed a task that was not named", k, tup)
        else:
            if out not in set(offending):
                self.v("cancel() with a non-running id: wrong/no error", tup, out, offending, state)
            for k, d in delta.items():
                if d and k not in earlier:
                    self.v("cancel() raised but cancelled something anyway", k, tup, out)


class C09(Monitor):
    """rejected requests leave no trace; lock/unlock gate and are idempotent (terminal branch)."""

    PROP = "C09"
    CAUSES = ("locked", "plainfunc", "nc0", "ncneg", "dupname")
    ERR = {
        "locked": X.PoolIsLocked,
        "closed": X.PoolIsClosed,
        "plainfunc": X.NotCoroutineFunction,
        "nc0": ValueError,
        "ncneg": ValueError,
        "dupname": X.TaskGroupAlreadyExists,
        "negsize": ValueError,
    }

    def obs(self, p):
        w = self.w
        pool = w.pools[p]
        groups = {}
        for t, r in w.reqs.items():
            if r.p == p and t not in w.group_cancelled:
                try:
                    groups[t] = sorted(pool.get_group_ids(r.group))
                except X.InvalidGroupName:
                    groups[t] = None
        # names a rejected request could have registered: the explicit one and the generated patterns
        names = ["rejname"] + [f"{m}-work-group-{i}" for m in ("apply", "map", "starmap", "doublestarmap") for i in range(4)]
        names += [f"start-group-{i}" for i in range(5)] + ["apply-plain-group-0", "map-plain-group-0", "apply-flagged_work-group-0"]
        known = []
        for n in names:
            try:
                known.append((n, tuple(sorted(pool.get_group_ids(n)))))
            except X.InvalidGroupName:
                pass
        return (pool.num_running, pool.num_cancelled, pool.num_ended, pool.is_full, pool.pool_size, groups, tuple(known),
                len(w.started), len(w.exited), dict(w.pulled), dict(w.calls), len(w.loop._ready), str(pool))

    def sample(self, kind, key, tag):
        w = self.w
        if w.terminated or w.probing:
            return
        for p in pools_of(w):
            if w.pools[p].is_locked != (p in w.locked_pools):
                self.v("is_locked does not reflect the last lock()/unlock()/gather_and_close()", p, w.pools[p].is_locked, kind)

    def alternatives(self, p):
        w = self.w
        pool = w.pools[p]
        simple = type(pool).__name__ == "SimpleTaskPool"
        live_names = [r.group for t, r in w.reqs.items() if r.p == p and t not in w.group_cancelled]
        alts = []
        methods = ["start"] if simple else ["apply", "map", "starmap", "doublestarmap"]
        for m in methods:
            avail = ["locked"]
            if not simple:
                avail.append("plainfunc")
                avail.append("named")
                if m != "apply":
                    avail += ["nc0", "ncneg"]
                avail += [f"dup:{i}" for i in range(len(live_names))]
            for n in range(0, len(avail) + 1):
                for sub in itertools.combinations(avail, n):
                    if "nc0" in sub and "ncneg" in sub:
                        continue
                    if sum(1 for x in sub if x.startswith("dup:")) > 1:
                        continue
                    alts.append((m, sub))
            if not simple and m != "apply":
                # the argument iterable as an empty sized collection (instead of a generator), alone and with a bad num_concurrent
                alts += [(m, ("emptylist",)), (m, ("nc0", "emptylist")), (m, ("ncneg", "emptylist"))]
        alts += [("set_size_neg", (-1,)), ("set_size_neg", (-2,)), ("set_size_neg", (-3,)),
                 ("ctor_neg", ()), ("locklock", ()), ("unlockunlock", ())]
        return alts

    def probe_reject(self, p, *a):
        w = self.w
        pool = w.pools[p]
        closed = p in w.closed_pools
        alts = self.alternatives(p)
        ch = w.ctl.choose(len(alts), free=True)
        m, sub = alts[ch]
        w.ctl.actions.append(f"  rejected-request probe {m} causes={sub} closed={closed} locked={pool.is_locked}")
        was_idle = w.idle()
        if m == "locklock":
            pool.lock(); pool.lock()
            if not pool.is_locked:
                self.v("lock();lock() leaves the pool unlocked")
            sub = ("locked",)
            m = "start" if type(pool).__name__ == "SimpleTaskPool" else "apply"
        elif m == "unlockunlock":
            pool.unlock(); pool.unlock()
            if pool.is_locked:
                self.v("unlock();unlock() leaves the pool locked")
            if closed:
                return
            # unlock() restores normal acceptance
            n0 = len(w.started)
            w.probing = True
            try:
                if type(pool).__name__ == "SimpleTaskPool":
                    pool.start(1)
                else:
                    pool.apply(w._make_worker("probe", "plain"), num=1)
            except Exception as e:
                self.v("request after unlock() rejected", type(e).__name__)
            w.probing = False
            return
        if m == "set_size_neg":
            before = self.obs(p)
            try:
                pool.pool_size = sub[0]
                self.v("negative pool_size accepted", sub[0])
            except ValueError:
                pass
            except Exception as e:
                self.v("negative pool_size raised something else", sub[0], type(e).__name__)
            if self.obs(p) != before:
                self.v("rejected pool_size assignment changed the pool", before, self.obs(p))
            return
        if m == "ctor_neg":
            from asyncio_taskpool import TaskPool

            before = self.obs(p)
            try:
                TaskPool(pool_size=-1)
                self.v("TaskPool(pool_size=-1) accepted")
            except ValueError:
                pass
            except Exception as e:
                self.v("TaskPool(pool_size=-1) raised something else", type(e).__name__)
            if self.obs(p) != before:
                self.v("rejected constructor changed another pool", before, self.obs(p))
            return
        if "locked" in sub:
            pool.lock()
        causes = {("dupname" if c.startswith("dup:") else c) for c in sub} - {"named", "emptylist"}
        # whether the pool is locked is the harness' knowledge (last of lock()/unlock()/gather_and_close()), not the pool's answer
        if p in w.locked_pools or "locked" in sub:
            causes.add("locked")
        if closed:
            causes.add("closed")
        tag = "rej"
        calls = [0]

        def plain(*a_, **k_):
            calls[0] += 1

        func = plain if "plainfunc" in sub else w._make_func(tag, "plain", [])
        pulled0 = w.pulled[tag]
        kw = {}
        dup = [x for x in sub if x.startswith("dup:")]
        if "named" in sub and not dup:
            kw["group_name"] = "rejname"
        if dup:
            live = [r.group for t, r in w.reqs.items() if r.p == p and t not in w.group_cancelled]
            kw["group_name"] = live[int(dup[0][4:])]
            sub = tuple(x for x in sub if not x.startswith("dup:")) + ("dupname",)
        nc = 0 if "nc0" in sub else (-1 if "ncneg" in sub else 1)
        from .poolworld import Req

        req = Req(tag=tag, kind="map", p=p, num=2, nc=1, stars={"map": 0, "starmap": 1, "doublestarmap": 2}.get(m, 0))
        before = self.obs(p)
        exc = None
        try:
            if m == "apply":
                pool.apply(func, args=(1,), num=2, **kw)
            elif m == "start":
                pool.start(2)
            else:
                # ("emptylist": the iterable is an empty sized collection instead of a generator - no cause of rejection)
                getattr(pool, m)(func, [] if "emptylist" in sub else w._make_iter(req), num_concurrent=nc, **kw)
        except Exception as e:
            exc = e
        after = self.obs(p)
        if not causes:
            # no cause of rejection: the request must be accepted (sanity, keeps the probe honest)
            if exc is not None:
                self.v("request without any cause of rejection was rejected", m, type(exc).__name__)
            return
        if exc is None:
            self.v("request that must be rejected was accepted", m, sorted(causes))
            return
        if not any(isinstance(exc, self.ERR[c]) for c in causes):
            self.v("rejected with an error whose cause is not present", m, sorted(causes), type(exc).__name__)
        if after != before:
            self.v("rejected request left a trace", m, sorted(causes), before, after)
        if w.pulled[tag] != pulled0 or w.calls[tag] or calls[0]:
            self.v("rejected request touched the iterable / called func", m, sorted(causes), w.pulled[tag], w.calls[tag], calls[0])
        if was_idle:
            n0 = (len(w.started), dict(w.pulled), dict(w.calls))
            w.loop.run_idle()
            if (len(w.started), dict(w.pulled), dict(w.calls)) != n0 or calls[0]:
                self.v("something started after a rejected request", m, sorted(causes))


NAME_RE = re.compile(r"^(apply|map|starmap|doublestarmap)-work-group-(\d+)$")
START_RE = re.compile(r"^start-group-(\d+)$")


class C10(Monitor):
    """groups partition the tasks; names unique, fresh and of the documented form."""

    PROP = "C10"

    def __init__(self, world):
        super().__init__(world)
        self.live_before = None
        self.pre_ids = {}

    def __canon__(self):
        return sorted((t, sorted(v)) for t, v in self.pre_ids.items())

    def terminal(self):
        # SimpleTaskPool workers share one function, so which start() a task belongs to is only known through the
        # group; what is known independently is how many tasks each start() asked for
        w = self.w
        if w.terminated:
            return
        per_pool = {}
        for t, r in w.reqs.items():
            if r.kind != "start" or t in w.group_cancelled or w.cfg_size[r.p] == 0 or r.p in w.closed_pools or r.p in w.closing:
                per_pool.setdefault(r.p, None)
                if r.kind == "start":
                    per_pool[r.p] = "skip"  # a cancelled / unfinished request on this pool: no total to compare
                continue
            try:
                ids = w.pools[r.p].get_group_ids(r.group)
            except X.InvalidGroupName:
                per_pool[r.p] = "skip"
                continue  # reported at idle
            if len(ids) > r.num:
                self.v("group of a start(num) request holds more than num task ids", t, sorted(ids), r.num)
            if per_pool.get(r.p) != "skip":
                have, want = per_pool.get(r.p) or (0, 0)
                per_pool[r.p] = (have + len(ids), want + r.num)
        for p, hw in per_pool.items():
            if not hw or hw == "skip":
                continue
            # a call site that raises creates no task; which start() request a failing call belonged to is not known
            # (one function per pool), so only the pool-wide total can be compared
            skipped = len(w.skipped.get(w.simple_reqs[p].tag, ())) if p in w.simple_reqs else 0
            if hw[0] != hw[1] - skipped:
                self.v("groups of completed start(num) requests do not hold num task ids in total", p, hw[0], hw[1] - skipped)

    def live_groups(self, p):
        w = self.w
        return {t: r.group for t, r in w.reqs.items() if r.p == p and t not in w.group_cancelled and p not in w.closed_pools}

    def before_op(self, i, op):
        name, pos, opts = split_op(op)
        self.live_before = set(self.live_groups(opts.get("p", 0)).values())

    def after_op(self, i, op, out):
        w = self.w
        name, pos, opts = split_op(op)
        if name not in ("apply", "map", "start") or out[0] != "ok":
            if name in ("apply", "map") and opts.get("name") in (self.live_before or ()) and out[0] == "ok":
                self.v("duplicate group name accepted", op)
            return
        g = out[1]
        self.pre_ids[pos[0]] = set(w.all_created(opts.get("p", 0)))
        if opts.get("name") is not None:
            if g != opts["name"]:
                self.v("explicit group name not returned", op, g)
            return
        if g in self.live_before:
            self.v("generated group name collides with a live group", g)
        if name == "start":
            if not START_RE.match(g):
                self.v("generated name not of the form start-group-<i>", g)
        else:
            m = NAME_RE.match(g)
            meth = "apply" if name == "apply" else ("map", "starmap", "doublestarmap")[opts.get("stars", 0)]
            if not m or m.group(1) != meth:
                self.v("generated name not of the form <method>-<func>-group-<i>", g, meth)

    def sample(self, kind, key, tag):
        w = self.w
        if kind == "w_start" and tag in w.reqs and tag not in w.group_cancelled and key[0] not in w.closed_pools:
            p = key[0]
            for t, g in self.live_groups(p).items():
                try:
                    ids = w.pools[p].get_group_ids(g)
                except X.InvalidGroupName:
                    self.v("live group unknown", t, g)
                    continue
                if (key[1] in ids) != (t == tag):
                    self.v("task is not in exactly the group of the call that requested it", key, tag, t, sorted(ids))

    def idle(self):
        w = self.w
        for p in pools_of(w):
            pool = w.pools[p]
            lg = self.live_groups(p)
            sets = {}
            for t, g in lg.items():
                try:
                    ids = pool.get_group_ids(g)
                except X.InvalidGroupName:
                    self.v("live group unknown", t, g)
                    continue
                mine = {k[1] for k in started_of(w, t)} | never_started_cancelled(w, t)
                if ids != mine:
                    self.v("get_group_ids != ids of the tasks created for the group", t, sorted(ids), sorted(mine))
                if len(ids) > w.reqs[t].num and w.reqs[t].kind in ("apply", "start"):
                    self.v("group holds more task ids than the request asked for", t, sorted(ids), w.reqs[t].num)
                if ids & self.pre_ids.get(t, set()):
                    self.v("group holds the id of a task that existed before the request was made", t, sorted(ids), sorted(self.pre_ids[t]))
                sets[t] = ids
            tags = sorted(sets)
            for a in range(len(tags)):
                for b in range(a + 1, len(tags)):
                    if sets[tags[a]] & sets[tags[b]]:
                        self.v("two live groups share a task id", tags[a], tags[b])
                    u = pool.get_group_ids(lg[tags[a]], lg[tags[b]])
                    if u != sets[tags[a]] | sets[tags[b]]:
                        self.v("get_group_ids(a, b) is not the union", tags[a], tags[b])
            if p not in w.closed_pools:
                try:
                    pool.get_group_ids("no-such-group")
                    self.v("unknown group name did not raise")
                except X.InvalidGroupName:
                    pass
                for t in w.group_cancelled:
                    r = w.reqs[t]
                    if r.p == p and r.group not in lg.values():
                        try:
                            pool.get_group_ids(r.group)
                            self.v("cancelled group still known", t)
                        except X.InvalidGroupName:
                            pass


class C11(Monitor):
    """ids dense, ordered, never reused, visible in task names; pools independent."""

    PROP = "C11"

    def __init__(self, world):
        super().__init__(world)
        self.next = [0] * len(world.pools)
        names = [str(pl) for p, pl in enumerate(world.pools) if p not in world.named_pools]
        if len(set(names)) != len(names):
            self.v("two unnamed pools have the same name", names)

    def __canon__(self):
        return tuple(self.next)

    def sample(self, kind, key, tag):
        w = self.w
        if len(self.next) < len(w.pools):
            self.next += [0] * (len(w.pools) - len(self.next))
        names = [str(w.pools[p]) for p in pools_of(w) if p not in w.closed_pools and p not in w.named_pools]
        if len(set(names)) != len(names):
            self.v("two unnamed pools in use have the same name", names)
        if w.bad_names:
            self.v("task name not of the form <pool>_Task-<id>", w.bad_names[0])
        if w.dup_keys:
            self.v("task id used twice", w.dup_keys[0])
        if w.cb_mismatch:
            self.v("id passed to a callback != id in the task's name", w.cb_mismatch[0])
        twice = sorted(k for k, n in w.cb_begun.items() if n > 1)
        if twice:
            self.v("the same task id was passed to a callback more than once (ids handed to callbacks are not unique)", twice[0])
        for p in pools_of(w):
            ids = w.all_created(p)
            new = sorted(t for t in ids if t >= self.next[p])
            if new:
                if new != list(range(self.next[p], self.next[p] + len(new))):
                    self.v("task ids not dense / not starting where the last one ended", p, self.next[p], new)
                self.next[p] = max(new) + 1
            if any(t < 0 for t in ids):
                self.v("negative id", p)
            # an id belongs to one request for good (also after its group was cancelled or flushed)
            per_req = [(t, s_) for t, s_ in w.created.items() if w.reqs[t].p == p]
            for a in range(len(per_req)):
                for b in range(a + 1, len(per_req)):
                    shared = per_req[a][1] & per_req[b][1]
                    if shared:
                        self.v("task id handed out twice (two requests hold the same id)", p, per_req[a][0], per_req[b][0], sorted(shared))
        if kind == "w_start":
            p = key[0]
            for k, o in w.start_order.items():
                if k[0] == p and k != key and (k[1] < key[1]) != (o < w.start_order[key]):
                    self.v("tasks did not start in id (creation) order", k, key)
            if w.task_names[key] != f"{w.pools[p]}_Task-{key[1]}":
                self.v("task name mismatch", key, w.task_names[key])


class C12(Monitor):
    """what flush()/gather_and_close() raise is an exception injected into some task, or nothing."""

    PROP = "C12"

    def __init__(self, world):
        super().__init__(world)
        self.failed_at_call = {}

    def __canon__(self):
        return sorted((k, sorted(v)) for k, v in self.failed_at_call.items())

    def failed_known(self, p):
        """failed tasks (coroutine raised) that the pool still remembers as ended"""
        w = self.w
        # (remembered by the pool according to its own answer, or - harness knowledge - not covered by any flush() yet:
        # only flush() and gather_and_close() forget tasks)
        return {k for k, h in w.exited.items() if k[0] == p and h == "exc"
                and (w.classify(k) == "ended" or (k not in w.flush_covered and p not in w.closing and p not in w.closed_pools))}

    def before_op(self, i, op):
        w = self.w
        name, pos, opts = split_op(op)
        if name in ("flush", "gac"):
            self.failed_at_call[(i, w.pcs[i] - 1)] = self.failed_known(opts.get("p", 0))

    def driver_done(self, i, op, out):
        w = self.w
        name, pos, opts = split_op(op)
        if name not in ("flush", "gac"):
            return
        re_ = bool(pos and pos[0])
        known = self.failed_at_call.pop((i, w.pcs[i] - 1), set())
        if (i, w.pcs[i] - 1) in w.cancelled_ops:
            return  # the caller itself was cancelled (timeout): CancelledError is what it gets
        if out[0] == "ok":
            # the exception of a failed task that was gathered is what the call raises (unless collected)
            if not re_ and known and not self.cb_raising():
                self.v(f"{name}() returned normally although a task it gathered had raised", sorted(known))
            return
        if re_:
            self.v(f"{name}(return_exceptions=True) raised", out)
            return
        tag = out[2] if len(out) > 2 else None
        if out[1] not in ("WorkerError", "CbError") or tag is None:
            self.v(f"{name}() raised an exception that no task or callback raised", out)
            return
        if tag[0] == "worker" and not any(h == "exc" for k, h in w.exited.items() if w.started[k][0] == tag[1]):
            self.v(f"{name}() raised a worker error although no worker of that request failed", out)

    def cb_raising(self):
        w = self.w
        kinds = {w.scen.get("ecb", "none"), w.scen.get("ccb", "none")}
        for r in w.reqs.values():
            if r.opts:
                kinds |= {r.opts.get("ecb", "none"), r.opts.get("ccb", "none")}
        return bool(kinds & {"raise", "araise", "praise", "apraise"})


class C13(Monitor):
    """flush forgets finished tasks only."""

    PROP = "C13"

    def __init__(self, world):
        super().__init__(world)
        self.fin = {}  # (actor, pc) -> ids finished before that flush was called

    def __canon__(self):
        return sorted((k, sorted(v)) for k, v in self.fin.items())

    def cb_pending(self, k):
        w = self.w
        return any(w.cb_begun[(wh, k)] > w.cb_done[(wh, k)] + w.cb_interrupted[(wh, k)] for wh in ("ecb", "ccb"))

    def finished(self, k):
        """Harness view: worker exited and every callback configured for it has completed."""
        w = self.w
        if k not in w.exited or self.cb_pending(k):
            return False
        tag = w.started[k][0]
        r = w.reqs.get(tag) or w.simple_reqs.get(k[0])
        if r is not None and r.kind == "start":
            spec = w.scen["pools"][k[0]]
            ek, ck = spec.get("ecb", w.scen.get("ecb", "none")), spec.get("ccb", w.scen.get("ccb", "none"))
        else:
            o = (r.opts or {}) if r is not None else {}
            ek, ck = o.get("ecb", w.scen.get("ecb", "none")), o.get("ccb", w.scen.get("ccb", "none"))
        if ek != "none" and w.cb_done[("ecb", k)] < 1:
            return False
        if ck != "none" and w.exited[k] == "cancelled" and w.cb_done[("ccb", k)] < 1:
            return False
        return True

    def before_op(self, i, op):
        w = self.w
        name, pos, opts = split_op(op)
        if name == "flush":
            p = opts.get("p", 0)
            self.fin[(i, w.pcs[i] - 1)] = {k for k in w.started if k[0] == p and self.finished(k)}

    def driver_done(self, i, op, out):
        w = self.w
        name, pos, opts = split_op(op)
        if name != "flush":
            return
        pc = w.pcs[i] - 1
        if pos and pos[0] and out[0] != "ok" and (i, pc) not in w.cancelled_ops:
            self.v("flush(return_exceptions=True) raised", out)
        fin = sorted(self.fin.pop((i, pc), ()))
        if out[0] != "ok":
            return  # flush() raised a task's exception: it did not "return" (what it may raise is C12's)
        for k in fin:
            c = w.classify(k)
            if c != "unknown":
                self.v("task finished before flush() is still remembered after it returned", k, c)

    def sample(self, kind, key, tag):
        w = self.w
        for k in w.exited:
            if self.cb_pending(k) and k[0] not in w.closed_pools:
                c = w.classify(k)
                if c == "unknown":
                    self.v("task inside its callbacks was forgotten", k, kind)
        for p in pools_of(w):
            if p in w.closed_pools:
                continue
            if w.pools[p].num_running < w.live[p]:
                self.v("running task no longer counted", p, w.pools[p].num_running, w.live[p], kind)
            if kind == "boundary" and w.flushes_begun[p]:
                # a running task stays reachable through its group (cancel_group / cancel_all go through the group registry)
                for t, r in w.reqs.items():
                    if r.p != p or t in w.group_cancelled or r.group is None or p in w.closing:
                        continue
                    lv = live_of(w, t)
                    if not lv:
                        continue
                    try:
                        ids = w.pools[p].get_group_ids(r.group)
                    except X.InvalidGroupName:
                        self.v("flush() forgot the group of tasks that are still running", t, r.group, lv)
                        continue
                    if not {k[1] for k in lv} <= ids:
                        self.v("running task is no longer a member of its group after flush()", t, sorted(ids), lv)

    def terminal(self):
        w = self.w
        if w.terminated:
            return
        for i, t in w.drivers.items():
            op = w.scen["actors"][i][w.pcs[i] - 1]
            if op[0] == "flush" and not t.done():
                self.v("flush() never returns", i)


class C14(Monitor):
    """SimpleTaskPool.stop: LIFO and exact."""

    PROP = "C14"

    def __init__(self, world):
        super().__init__(world)
        self.expected = set()
        self.exp = None

    def __canon__(self):
        return sorted(self.expected)

    def running_ids(self, p):
        w = self.w
        pending = {t_.get_name() for t_ in w.loop.live_tasks()}
        out = []
        for t in w.all_created(p):
            k = (p, t)
            if k in w.exited:
                continue
            if k not in w.started and f"{w.pools[p]}_Task-{t}" not in pending:
                continue  # cancelled before its first step and already through
            if k not in w.started and (w.cb_begun[("ccb", k)] or w.cb_begun[("ecb", k)]):
                continue  # cancelled before its first step; its wrapper is already in the callbacks
            out.append(t)
        return sorted(out, reverse=True)

    def before_op(self, i, op):
        name, pos, opts = split_op(op)
        p = opts.get("p", 0)
        self.pre_targets = set(self.w.cancel_targets)
        if name == "stop":
            self.exp = self.running_ids(p)[: max(0, pos[0])]
        elif name == "stop_all":
            self.exp = self.running_ids(p)

    def after_op(self, i, op, out):
        name, pos, opts = split_op(op)
        p = opts.get("p", 0)
        if name == "cancel" and out[0] == "ok":
            self.expected.update((p, t) for t in out[1])
        if name in ("cancel_group", "cancel_all") and out[0] == "ok":
            self.expected |= self.w.cancel_targets - self.pre_targets
        if name in ("stop", "stop_all"):
            if out[0] != "ok":
                self.v(f"{name} raised", out)
                return
            if list(out[1]) != self.exp:
                self.v(f"{name} did not return the most recently started running tasks, newest first", list(out[1]), self.exp)
            self.expected.update((p, t) for t in self.exp)

    def sample(self, kind, key, tag):
        if kind == "w_cancel" and key not in self.expected and tag not in self.w.group_cancelled and not self.w.cancelled_ops:
            # (cancelling the caller of flush()/gather_and_close() cancels the tasks its gather() waits for: asyncio's
            # documented behaviour, not an effect of stop())
            self.v("a task that was not stopped observed a cancellation", key)

    def quiet_idle(self):
        w = self.w
        absorbing = is_absorbing(w)
        for k in self.expected:
            if k in w.started and k not in w.exited and not absorbing:
                self.v("stopped task still running at quiet idle", k)
            if k in w.exited and w.cancel_seen[k] < 1 and w.exited[k] == "ret" and False:
                pass


class C15(Monitor):
    """pool_size reports and enforces the configured maximum when changed."""

    PROP = "C15"

    def __init__(self, world):
        super().__init__(world)
        self.before = None
        self.grand = {}
        self.allow = {}
        self.allow_tags = {}
        self.pre = None
        self.pre_tags = ()
        self.shrunk = {}
        self.incomplete_cancels = {}
        self.kf_used = {}
        self.pre_incomplete = ()

    def __canon__(self):
        return (sorted((p, sorted(v)) for p, v in self.grand.items()), sorted(self.allow.items()),
                sorted((p, sorted(v)) for p, v in self.allow_tags.items()), sorted(self.shrunk.items()),
                sorted(self.incomplete_cancels.items()), sorted(self.kf_used.items()))

    def pending_tags(self, p):
        w = self.w
        out = []
        for t, r in w.reqs.items():
            if r.p != p or t in w.group_cancelled:
                continue
            made = len(w.created.get(t, ())) + len(w.skipped.get(t, ()))
            if r.num - made > 0:
                out.append(t)
        return out

    def demand(self, p):
        w = self.w
        demand = 0
        for t, r in w.reqs.items():
            if r.p != p or t in w.group_cancelled:
                continue
            sk = w.skipped.get(t, ())
            if r.kind == "start":
                sk = w.skipped.get(w.simple_reqs[r.p].tag, ())
            made = len(w.created.get(t, ())) + len(sk)
            rem = r.num - made
            if r.kind == "map":
                rem = min(rem, r.nc - len(live_of(w, t)))
            demand += max(0, rem)
        return demand

    def sample(self, kind, key, tag):
        w = self.w
        for p in pools_of(w):
            ps = w.pools[p].pool_size
            if ps != w.cfg_size[p]:
                self.v("pool_size does not report the configured maximum", p, ps, w.cfg_size[p], w.live[p], kind)
        if kind == "w_start" and key[1] not in self.grand.get(key[0], ()):
            # tasks created before the latest assignment were admitted under the old limit
            p = key[0]
            entitled = [t for t in self.allow_tags.get(p, ()) if t not in w.group_cancelled]
            if tag not in w.reqs:
                # SimpleTaskPool workers share one function: any pending start() request may be the owner
                mine = any(w.reqs[t].kind == "start" for t in entitled)
            else:
                mine = tag in entitled
            if w.live[p] > w.cfg_size[p] and self.allow.get(p, 0) > 0 and mine:
                # an admission the old limit had already granted (free room and pending demand
                # at the moment of the assignment: slot in transit to a woken spawner of THAT request)
                self.allow[p] -= 1
            elif (w.live[p] > w.cfg_size[p] and self.shrunk.get(p) and self.kf_used.get(p, 0) < self.incomplete_cancels.get(p, 0)):
                # known finding KF-C15-1: a slot was in transit to a spawner whose group was cancelled (before or after
                # the pool was shrunk in that window); asyncio's Semaphore puts the slot back past the pool's debt
                # counter. At most one such admission per request that was cancelled while still spawning.
                self.kf_used[p] = self.kf_used.get(p, 0) + 1
                self.v("KF-C15-1 slot in transit to a spawner cancelled after a shrink is handed to a later request "
                       "(one task beyond the new limit)", p, w.live[p], w.cfg_size[p])
            elif w.live[p] > w.cfg_size[p]:
                self.v("task admitted although the running count is not below the limit in force", p, w.live[p], w.cfg_size[p])
        if kind == "w_cancel" and key not in w.cancel_targets and tag not in w.group_cancelled:
            self.v("resizing cancelled a running task", key)

    def before_op(self, i, op):
        w = self.w
        name, pos, opts = split_op(op)
        if name in ("cancel_group", "cancel_all"):
            p = opts.get("p", 0)
            self.pre_incomplete = [t for t in self.pending_tags(p)]
        if name == "set_size":
            p = opts.get("p", 0)
            self.before = (w.pools[p].pool_size, w.pools[p].num_running, w.live[p], len(w.started))
            occupied = w.pools[p].num_running + w.pools[p].num_cancelled
            old = w.cfg_size[p]
            self.pre = min(max(0, old - occupied), self.demand(p)) if old != INF else self.demand(p)
            self.pre_tags = self.pending_tags(p)

    def after_op(self, i, op, out):
        w = self.w
        name, pos, opts = split_op(op)
        p = opts.get("p", 0)
        if name in ("cancel_group", "cancel_all") and out[0] == "ok":
            gone = [t for t in self.pre_incomplete if t in w.group_cancelled]
            self.incomplete_cancels[p] = self.incomplete_cancels.get(p, 0) + len(gone)
        if name != "set_size":
            return
        if pos[0] != -1 and out[0] == "ok" and self.before is not None and w.cfg_size[p] < self.before[0]:
            self.shrunk[p] = True
        if pos[0] == -1:
            if not w.raised(out, ValueError):
                self.v("negative pool size did not raise ValueError", out)
            now = (w.pools[p].pool_size, w.pools[p].num_running, w.live[p], len(w.started))
            if now != self.before:
                self.v("rejected pool_size assignment changed something", self.before, now)
        elif out[0] != "ok":
            self.v("valid pool_size assignment raised", out)
        else:
            self.grand[p] = set(w.all_created(p))
            # admissions granted before an EARLIER assignment that have not completed yet (the place is still in transit
            # to its spawner) stay granted across this assignment; they cannot exceed the demand that is still pending
            carried = min(self.allow.get(p, 0), self.demand(p))
            self.allow[p] = max(self.pre, carried)
            self.allow_tags[p] = sorted(set(self.pre_tags) | {t for t in self.allow_tags.get(p, ()) if t in self.pending_tags(p)})

    def quiet_idle(self):
        w = self.w
        for p in pools_of(w):
            if p in w.closing:
                continue
            demand = self.demand(p)
            if demand > 0 and w.live[p] < w.cfg_size[p]:
                self.v("tasks waiting for room although the running count is below the limit in force",
                       p, w.live[p], w.cfg_size[p], demand)


MONITORS = {c.PROP: c for c in (C01, C02, C03, C04, C05, C06, C07, C08, C09, C10, C11, C12, C13, C14, C15)}
