"""Oracles C01..C15 as monitors over PoolWorld (public pool API + harness records only)."""
import asyncio

from asyncio_taskpool import exceptions as X

from .poolworld import INF, Monitor, split_op

ORDER = {"running": 0, "cancelled": 1, "ended": 2, "unknown": 3}


def pools_of(w):
    return range(len(w.pools))


class C01(Monitor):
    """live workers <= size, num_running <= size at every sample point; is_full at quiet idle."""

    PROP = "C01"

    def sample(self, kind, key, tag):
        w = self.w
        for p in pools_of(w):
            size = w.cfg_size[p]
            if w.live[p] > size:
                self.v("live workers exceed pool size", p, w.live[p], size, kind)
            nr = w.pools[p].num_running
            if nr > size:
                self.v("num_running exceeds pool size", p, nr, size, kind)

    def quiet_idle(self):
        w = self.w
        for p in pools_of(w):
            size = w.cfg_size[p]
            pool = w.pools[p]
            exp = pool.num_running == size
            if pool.is_full != exp:
                self.v("is_full != (num_running == size) at quiet idle", p, pool.is_full, pool.num_running, size)


class C02(Monitor):
    """no task / capacity lost: accounting at quiet idle, exactly one end callback, capacity probe."""

    PROP = "C02"

    def sample(self, kind, key, tag):
        if kind == "ecb":
            if self.w.cb_begun[("ecb", key)] > 1:
                self.v("end callback fired more than once", key)

    def quiet_idle(self):
        w = self.w
        for p in pools_of(w):
            nr = w.pools[p].num_running
            if nr != w.live[p]:
                self.v("num_running != workers in flight at quiet idle", p, nr, w.live[p])

    def blocked_ok(self, i):
        w = self.w
        op = w.scen["actors"][i][w.pcs[i] - 1]
        name, pos, opts = split_op(op)
        p = opts.get("p", 0)
        if name == "until_closed":
            return p not in w.closed_pools
        if name == "gac" and w.cfg_size[p] == 0:
            return True
        return False

    def probe(self, p):
        w = self.w
        size = w.cfg_size[p]
        if size == INF or p in w.closing:
            return
        free = max(0, size - w.live[p])
        got = w.run_capacity_probe(p, free)
        if got != free:
            self.v("capacity probe: free slots != size - in flight", p, "started", got, "expected", free)

    def terminal(self):
        w = self.w
        if w.terminated:
            return
        for i, t in w.drivers.items():
            if not t.done() and not self.blocked_ok(i):
                self.v("operation never returns", i, w.scen["actors"][i][w.pcs[i] - 1])
        for p in pools_of(w):
            if w.pools[p].num_running != 0:
                self.v("terminal: num_running != 0 although every worker finished", p, w.pools[p].num_running)
        for tag, ids in w.created.items():
            req = w.reqs[tag]
            ek = req.opts.get("ecb", w.scen.get("ecb", "none")) if req.kind != "start" else None
            if req.kind == "start":
                ek = w.scen["pools"][req.p].get("ecb", w.scen.get("ecb", "none"))
            if ek == "none":
                continue
            for t in ids:
                n = w.cb_done[("ecb", (req.p, t))]
                if n != 1:
                    self.v("task did not get exactly one end callback", (req.p, t), n)

    def terminal_probe(self):
        w = self.w
        if w.terminated:
            return
        for p in pools_of(w):
            self.probe(p)


class C03(Monitor):
    """exact lifecycle: one of running/cancelled/ended, monotone, counters add up, callbacks exact/ordered."""

    PROP = "C03"

    def __init__(self, world):
        super().__init__(world)
        self.cls = {}

    def __canon__(self):
        return sorted(self.cls.items())

    def _cb_kind(self, which, key):
        w = self.w
        for tag, ids in w.created.items():
            req = w.reqs[tag]
            if req.p == key[0] and key[1] in ids:
                if req.kind == "start":
                    return w.scen["pools"][req.p].get(which, w.scen.get(which, "none"))
                return req.opts.get(which, w.scen.get(which, "none"))
        return w.scen.get(which, "none")

    def sample(self, kind, key, tag):
        w = self.w
        if kind in ("ecb", "ccb"):
            self.at_callback(kind, key)
        pending = None
        for p in pools_of(w):
            pool = w.pools[p]
            det = {"running": 0, "cancelled": 0, "ended": 0, "unknown": 0}
            amb = 0
            for t in sorted(w.all_created(p)):
                k = (p, t)
                if k in w.started and k not in w.exited:
                    c = "running"
                elif k in w.exited:
                    c = w.classify(k)
                    if c == "running":
                        self.v("worker exited but task still counts as running (cancellable)", k, kind)
                elif k not in w.cancel_targets:
                    c = "running"
                else:
                    # never started and aimed at by a cancellation: only probe once the
                    # task object is finished (probing a pending one would cancel it again)
                    if pending is None:
                        pending = {t_.get_name() for t_ in w.loop.live_tasks()}
                    if f"{pool}_Task-{t}" in pending:
                        amb += 1
                        continue
                    c = w.classify(k)
                prev = self.cls.get(k, "running")
                if ORDER[c] < ORDER[prev]:
                    self.v("task state moved backwards", k, prev, c, kind)
                if c == "unknown" and prev != "unknown" and not (w.flushes_begun[p] or p in w.closing):
                    self.v("task forgotten although no flush/close was requested", k, kind)
                self.cls[k] = c
                det[c] += 1
            got = (pool.num_running, pool.num_cancelled, pool.num_ended)
            want = (det["running"], det["cancelled"], det["ended"])
            if amb == 0:
                if got != want:
                    self.v("num_running/num_cancelled/num_ended != per-task states", p, got, want, kind)
            else:
                if sum(got) != sum(want) + amb or any(g < x for g, x in zip(got, want)):
                    self.v("counters inconsistent with per-task states", p, got, want, amb, kind)

    def at_callback(self, which, key):
        w = self.w
        if w.cb_begun[(which, key)] != 1:
            self.v(f"{which} invoked more than once", key, w.cb_begun[(which, key)])
        never_started = key not in w.started
        if not never_started and key not in w.exited:
            self.v(f"{which} invoked before the coroutine finished", key)
        own = w.classify(key)
        if which == "ecb":
            if own != "ended":
                self.v("end callback: own id does not count as ended", key, own)
            by_cancel = w.exited.get(key) == "cancelled" or never_started
            if by_cancel and self._cb_kind("ccb", key) != "none" and w.cb_done[("ccb", key)] != 1:
                self.v("end callback before/without completed cancel callback", key, w.cb_done[("ccb", key)])
        else:
            if own != "cancelled":
                self.v("cancel callback: own id does not count as cancelled", key, own)
            if w.cb_begun[("ecb", key)]:
                self.v("cancel callback after end callback", key)
            if not never_started and w.exited.get(key) != "cancelled":
                self.v("cancel callback although the coroutine was not cancelled", key, w.exited.get(key))

    def terminal(self):
        w = self.w
        if w.terminated:
            return
        for p in pools_of(w):
            for t in sorted(w.all_created(p)):
                k = (p, t)
                by_cancel = w.exited.get(k) == "cancelled" or k not in w.started
                if self._cb_kind("ecb", k) != "none":
                    n = w.cb_done[("ecb", k)]
                    if n != 1 or w.cb_begun[("ecb", k)] != 1:
                        self.v("end callback not run exactly once to completion", k, n)
                if self._cb_kind("ccb", k) != "none":
                    n = w.cb_done[("ccb", k)]
                    want = 1 if by_cancel else 0
                    if n != want or w.cb_begun[("ccb", k)] != want:
                        self.v("cancel callback count wrong", k, n, want, w.exited.get(k))


MONITORS = {"C01": C01, "C02": C02, "C03": C03}
