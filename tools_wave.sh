#!/bin/sh
# tools_wave.sh <round-word> <count-word> <dim-mult> <dim-off>: prepares /tmp/wt (one detached worktree of /repo per
# property, the property files with the already known seeded changes, and the instructions for the sub-agents).
# Development tool; nothing registered in MANIFEST.json depends on it or on /tmp.
ROUND=${1:-sixth}; COUNT=${2:-FIVE}; MULT=${3:-5}; OFF=${4:-2}
mkdir -p /tmp/wt && cd /repo && for i in $(seq -w 1 20); do git worktree add -q --detach /tmp/wt/C$i HEAD; done
MULT=$MULT OFF=$OFF python3 - <<'EOF'
import json, glob, os
known = {}
for f in sorted(glob.glob('/verif/seeded/*/meta.json')):
    m = json.load(open(f)); known.setdefault(m['breaks_property'], []).append(m.get('summary') or m['id'])
dims = [
 "behaviour that only SimpleTaskPool has (start/stop/stop_all, func fixed at construction, start-group counters)",
 "optional arguments that are rarely used: explicit group names, a name given to the pool, the msg argument of cancel/cancel_group/cancel_all, return_exceptions=True",
 "callbacks given in unusual but legal forms (functools.partial, bound methods, callable objects) and callbacks/workers that call pool methods themselves (re-entrancy: apply/cancel/flush/pool_size from inside a callback)",
 "boundary values: pool size 0 or 1 or unbounded, num=0 or 1, num_concurrent=1, empty or one-element iterables, repeated/duplicate ids",
 "two pools living in the same event loop, or a pool that is used again after an attempt to close it failed or was cancelled",
 "pool states that are rarely combined with the operation in question: a locked pool, a closed pool, a pool whose size was changed (shrunk below its occupancy, grown, made unbounded or bounded) before or while the operation runs",
 "long multi-step histories: flush() in between, repeated lock/unlock, a group name re-used several times, cancellations of already finished work, several resizes",
 "timing windows of exactly one event-loop iteration (between a release and the resumption of the waiter, between creation and first step of a task, between an ending and its callback)",
 "the combination of two features that are each fine alone (map + resize, flush + cancel_group, stop + start, apply + map sharing a pool, a callback that suspends while another task of the same request ends, exceptions raised by user code at unusual places: iterables, callbacks, the function's call site)",
]
mult, off = int(os.environ['MULT']), int(os.environ['OFF'])
for n,l in enumerate(open('/verif/properties.jsonl')):
    d=json.loads(l)
    rec={k:d[k] for k in ('id','title','statement','quantifier','why_tests_cant','anchors')}
    rec['already_known_changes_do_not_repeat'] = known.get(d['id'], [])
    rec['explore_this_dimension'] = dims[(n*mult+off) % len(dims)]
    open(f"/tmp/wt/{d['id']}.property.json","w").write(json.dumps(rec, indent=1))
EOF
cat > /tmp/wt/INSTRUCTIONS.md <<EOF
# Task: seed one property-breaking change into asyncio-taskpool ($ROUND round)

You are helping test a verification effort for the Python library asyncio-taskpool (pure Python; asyncio task pools,
a Queue context manager, and a TCP/Unix control server with a CLI client). You are given ONE property \`CNN\`.

Work ONLY inside your scratch git worktree \`/tmp/wt/CNN\` (a checkout of the library; sources under
\`src/asyncio_taskpool\`, tests under \`tests/\`). Do NOT read or touch \`/verif\` or \`/repo\`. Interpreter: \`/venv/bin/python\`
(3.12). No network (loopback / Unix sockets are fine).

1. Read the property in \`/tmp/wt/CNN.property.json\` (statement, quantifier, anchors — anchors may describe an older
   state of the code, read the current sources). The field \`already_known_changes_do_not_repeat\` lists $COUNT changes
   that are already known: yours must be SUBSTANTIALLY DIFFERENT from all of them — a different code site AND a
   different mechanism. The field \`explore_this_dimension\` names a dimension that has been explored little so far:
   look for a change whose effect shows up along THAT dimension (if the dimension makes no sense for this property,
   pick the closest sensible one and say so).
2. Produce ONE realistic code change under \`src/asyncio_taskpool\` that BREAKS the property while the library still
   imports and the existing test suite passes completely. IMPORTANT: run the tests against YOUR sources:
   \`cd /tmp/wt/CNN && PYTHONPATH=/tmp/wt/CNN/src /venv/bin/python -m pytest -q -p no:cacheprovider tests\`
   (112 tests must pass; do not edit tests; a plain \`pytest\` without PYTHONPATH imports an installed copy and proves
   nothing). The tests are mock-heavy and pin exact call arguments, so many naive edits fail them: iterate.
3. Prefer changes that are subtle: two sites that each look fine alone, an optimisation/caching/"robustness" tweak,
   a fault that needs a particular interleaving or a particular multi-step history or an unusual-but-legal input.
   The change must NOT be exposed by ordinary straightforward use, and it must be deterministic (not depend on
   memory addresses, hash seeds or wall-clock time). It must break THE GIVEN PROPERTY as stated (not merely some
   other behaviour), for an input/history/schedule inside the property's quantifier.
4. Deliverables in \`/tmp/wt/CNN/\`:
   * \`mutant.patch\` — \`git -C /tmp/wt/CNN diff -- src > mutant.patch\` (only files under src/).
   * \`demo.py\` — standalone program, run as \`PYTHONPATH=/tmp/wt/CNN/src /venv/bin/python demo.py\`, using real asyncio
     (real pool / server objects; asyncio.Event / sleep(0) to steer interleavings; \`asyncio.wait_for\` with short
     timeouts to detect hangs). Exit status 1 (printing what went wrong) with the change, 0 on the unchanged code.
     Verify BOTH ways WITHOUT \`git stash\` (the stash is shared between worktrees and other agents are running):
     \`git apply -R mutant.patch\` → demo must pass → \`git apply mutant.patch\` → demo must fail.
   * \`meta.json\` — {"property": "CNN", "summary": "<one sentence>", "needs": "<what schedule/sequence/input is needed>",
     "tests_pass": true, "demo_fails_with_change": true, "demo_passes_without": true}
5. Leave the change applied. Final answer: short — the summary, what it needs to manifest, and the three
   confirmations. If after serious effort no change keeps the suite green, say so and describe what you tried.
EOF
echo ready
