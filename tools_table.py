#!/usr/bin/env python3
"""Regenerates the seeded-change table of DESIGN.md section 9 from seeded/*/meta.json (development tool)."""
import glob
import json
import re

rows = ["| seeded change | what it does | caught by (quick tier) | what the miss taught |", "|---|---|---|---|"]
for f in sorted(glob.glob("/verif/seeded/*/meta.json")):
    m = json.load(open(f))
    s = (m.get("summary") or "").replace("|", "/").replace("\n", " ")
    s = s[:157] + "..." if len(s) > 160 else s
    notes = "; ".join(m.get("notes") or []).replace("|", "/").replace("\n", " ") or "—"
    if notes.startswith("caught at once"):
        notes = "— (" + notes + ")"
    rows.append(f"| {m['id']} | {s} | {', '.join(m.get('detected_by_quick_checks', []))} | {notes} |")
text = open("/verif/DESIGN.md").read()
new = re.sub(r"\| seeded change \| what it does \|.*?\n\n", "\n".join(rows) + "\n\n", text, count=1, flags=re.S)
open("/verif/DESIGN.md", "w").write(new)
print(len(rows) - 2, "rows")
