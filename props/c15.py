"""C15  pool_size reports and enforces the configured maximum when changed."""
from .common import *  # noqa: F401,F403

EXPLANATION = (
    "old size x new size (incl. -1 and inf) with k running and q waiting tasks, the assignment placed at every boundary "
    "of the complete state graph, followed by completions in all orders. Oracle at every boundary/user-code point: "
    "pool_size == configured maximum; at every worker start live <= limit in force; no worker is cancelled by a resize; "
    "-1 raises ValueError and changes nothing; at every quiet idle state no request is left waiting while the running "
    "count is below the limit in force."
)
ASSUMPTIONS = ["bounds: sizes {0,1,2,3,inf}, <= 4 tasks requested, <= 3 assignments"]
BUDGET = {"quick": 120, "thorough": 900}
MON = ["C15"]


def cells(tier):
    out = []
    q = tier == "quick"
    sizes = [0, 1, 2, 3, "inf"]
    for old in sizes:
        for new in sizes + [-1]:
            if old == new:
                continue
            sc = scen(pool(old), [[A("A", 3)], [["set_size", new]]], outcomes=["ret"])
            out.append(cell(f"{old}->{new} A3", sc, MON))
    for old, seq in [(1, [2, 1]), (2, [0, 3]), (3, [1, -1, "inf"]), ("inf", [1, 2])]:
        sc = scen(pool(old), [[A("A", 2)], [M("M", 2, 2)], [["set_size", v] for v in seq]], outcomes=["ret", "exc"])
        out.append(cell(f"{old}->{seq} A2|M2/2", sc, MON))
    for new in [1, 2]:
        sc = scen(pool("inf"), [[A("A", 3)], [cancel(rid("A", 0))], [["set_size", new], A("B", 2)]], outcomes=["ret"], ecb="plain", ccb="slow", slow_ids=[0])
        out.append(cell(f"inf->{new} A3 cancel0(slow ccb) then B2", sc, MON))
        sc = scen(pool(3), [[A("A", 3)], [cancel(rid("A", 1))], [["set_size", new], A("B", 2)]], outcomes=["ret"], ecb="slow", ccb="plain", slow_ids=[1])
        out.append(cell(f"3->{new} A3 cancel1(slow ecb) then B2", sc, MON))
    # a slot in transit to a woken spawner, then the pool is shrunk and that spawner's group cancelled, then a new request
    for old, new in [(2, 1), (1, 0), (3, 2)]:
        sc = scen(pool(old), [[A("A", old + 1)], [["set_size", new]], [cgroup("A"), A("B", 2)]], outcomes=["ret"])
        out.append(cell(f"{old}->{new} A{old + 1} resize|cgroupA,B2 (slot in transit)", sc, MON))
    # ended tasks forgotten by flush() before the resize must not count as occupying the pool
    for old in ["inf", 3]:
        for seq in ([1], [2], [5, 2]):
            sc = scen(pool(old), [[A("A", 3)], [FLUSH] + [["set_size", v] for v in seq] + [A("B", 2)]], outcomes=["ret"])
            out.append(cell(f"{old}->{seq} A3|flush,resize,B2", sc, MON))
    # made unbounded and bounded again while spawners wait for room (both assignments may fall into one loop iteration)
    for old, new in [(1, 2), (1, 1), (2, 1)]:
        sc = scen(pool(old), [[A("A", old + 3)], [["set_size", "inf"], ["set_size", new]]], outcomes=["ret"])
        out.append(cell(f"{old}->inf->{new} A{old + 3} (spawners waiting)", sc, MON + ["C02"]))
    for old, seq in [(0, [2]), (0, [1, 0]), (1, [0, 2])]:
        sc = scen(pool(old, "SimpleTaskPool"), [[S("S", 3)], [["set_size", v] for v in seq]], outcomes=["ret"])
        out.append(cell(f"simple {old}->{seq} S3", sc, MON))
    sc = scen(pool(1, "SimpleTaskPool"), [[S("S", 3)], [["set_size", 2]], [["set_size", 0]]], outcomes=["ret"])
    out.append(cell("simple 1->2,->0 S3", sc, MON))
    if not q:
        for old, seq in [(1, [3, 1, 2]), (2, [0, 1, 3]), (0, [2, 1])]:
            sc = scen(pool(old), [[A("A", 4)], [cancel(rid("A", 0))], [["set_size", v] for v in seq]], outcomes=["ret", "exc"], ecb="plain", ccb="plain")
            out.append(cell(f"T {old}->{seq} A4 cancel0", sc, MON))
    return out
