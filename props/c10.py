"""C10  Groups partition the tasks; names are unique and fresh."""
from .common import *  # noqa: F401,F403

EXPLANATION = (
    "Sequences of named and unnamed requests, group cancellations and name re-use with interleaved spawners on small "
    "pools; complete state graph. Oracle at every idle state: get_group_ids(g) == ids of the tasks created for g, union "
    "for two names, live groups pairwise disjoint, unknown/cancelled names raise InvalidGroupName; at every worker start "
    "the task is in exactly the group of its request; generated names have the documented form and are not live when generated."
)
ASSUMPTIONS = ["bounds: <= 4 requests, sizes {1,2,inf}"]
BUDGET = {"quick": 120, "thorough": 900}
MON = ["C10"]


def cells(tier):
    out = []
    q = tier == "quick"
    for size in [1, 2, "inf"]:
        sc = scen(pool(size), [[A("A", 2)], [A("B", 1), M("M", 2, 1)], [cgroup("A"), A("C", 1)]], outcomes=["ret"])
        out.append(cell(f"s{size} A2|B1,M2/1|cgroupA,C1 unnamed", sc, MON))
        sc = scen(pool(size), [[A("A", 2, name="x")], [M("M", 2, 2, name="y")], [cgroup("A"), A("C", 1, name="x", needs_cancelled="A")], [A("D", 1, name="y")]],
                  outcomes=["ret"])
        out.append(cell(f"s{size} named x,y reuse-x dup-y", sc, MON))
        sc = scen(pool(size), [[M("M", 2, 1, stars=1)], [M("N", 1, 1, stars=2)], [M("O", 1, 1)], [CALL, A("A", 1)]], outcomes=["ret"])
        if not (q and size == "inf"):
            out.append(cell(f"s{size} starmaps call A1", sc, MON))
        sc = scen(pool(size, "SimpleTaskPool"), [[S("S", 2), S("T", 1)], [cgroup("S"), S("U", 1)]], outcomes=["ret"])
        out.append(cell(f"simple s{size} S2,T1|cgroupS,U1", sc, MON))
    for size in [1, 2]:
        sc = scen(pool(size), [[A("A", 1)], [cgroup("A"), A("B", 1, name="apply-work-group-0", needs_cancelled="A"), A("C", 1), M("M", 1, 1)]], outcomes=["ret"])
        out.append(cell(f"s{size} A1|cgroupA,B1 named like A's generated name,C1,M1", sc, MON))
        sc = scen(pool(size), [[A("A", 3)], [A("B", 2)], [cgroup("A"), A("C", 2)]], outcomes=["ret"])
        out.append(cell(f"s{size} A3|B2|cgroupA,C2 (cancelled waiting spawner)", sc, MON))
    # requests that never start a task (empty iterable, num=0, every call site raises, start(0)) stay live groups across
    # a flush(): their names stay known (empty set) and are not generated again
    sc = scen(pool(2), [[M("E", 0, 1), A("Z", 0), FLUSH, M("F", 1, 1), A("Y", 1)]], outcomes=["ret"])
    out.append(cell("s2 M0/1,A0,flush,M1/1,A1 (empty groups)", sc, MON))
    sc = scen(pool(2), [[M("E", 2, 1, bad=[0, 1]), A("Z", 1, fault=[0])], [FLUSH, M("F", 1, 1), A("Y", 1)]], outcomes=["ret"])
    out.append(cell("s2 M2/1 allbad,A1 fault0|flush,M1/1,A1 (empty groups)", sc, MON))
    sc = scen(pool(2, "SimpleTaskPool"), [[S("S", 0), FLUSH, S("T", 1)]], outcomes=["ret"])
    out.append(cell("simple s2 S0,flush,T1 (empty groups)", sc, MON))
    sc = scen(pool(2), [[A("A", 1, name="two words"), M("N", 1, 1, stars=1, name="a  b")], [M("M", 1, 1, name=" lead")]], outcomes=["ret"])
    out.append(cell("s2 explicit names containing whitespace (apply, map, starmap, doublestarmap)", sc, MON))
    sc = scen(pool(1), [[A("X", 1)], [A("A", 2), cgroup("A"), A("B", 2), cgroup("B"), A("C", 1)]], outcomes=["ret"])
    out.append(cell("s1 X1|A2,cgroupA,B2,cgroupB,C1 (generated name re-used twice at once)", sc, MON))
    for size in [1, 2]:
        # overlapping start() requests whose spawners wait for room in turn
        sc = scen(pool(size, "SimpleTaskPool"), [[S("S", 3)], [S("T", 1)]], outcomes=["ret"])
        out.append(cell(f"simple s{size} S3|T1 (overlapping spawners)", sc, MON))
        sc = scen(pool(size, "SimpleTaskPool"), [[S("S", 3), S("T", 2)], [["stop", 1]]], outcomes=["ret"])
        out.append(cell(f"simple s{size} S3,T2|stop1", sc, MON))
    if not q:
        for size in [1, 2]:
            sc = scen(pool(size), [[A("A", 2)], [A("B", 2)], [A("C", 1)], [cgroup("B"), A("D", 2)], [cancel(rid("A", 0))]], outcomes=["ret", "exc"])
            out.append(cell(f"T s{size} A2|B2|C1|cgroupB,D2|cancelA0", sc, MON))
    return out
