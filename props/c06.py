"""C06  cancel(ids) is exact and all-or-nothing."""
from .common import *  # noqa: F401,F403

EXPLANATION = (
    "Histories that contain running, cancelled-in-slow-callback, ended, flushed and never-issued ids are explored "
    "completely; at EVERY boundary state a terminal branch calls cancel(*tuple) for every tuple over the known ids "
    "(+ one never-issued id) up to length 2 (quick) / 3 (thorough): all ids running => no error and exactly those "
    "workers observe exactly one CancelledError (a task that had not begun never begins); otherwise the error type "
    "matches an offending id and no worker observes any cancellation."
)
ASSUMPTIONS = ["bounds: <= 5 ids, tuples <= 3"]
BUDGET = {"quick": 150, "thorough": 900}
MON = ["C06"]


def cells(tier):
    out = []
    q = tier == "quick"
    L = 2 if q else 3
    P = ["probe_cancel", L]
    for size in [2, 3]:
        for worker in ["plain", "absorb"]:
            sc = scen(pool(size), [[A("A", 3)], [cancel(rid("A", 0))], [FLUSH], [P]], outcomes=["ret"],
                      ccb="slow", ecb="plain", slow_ids=[0], worker=worker)
            out.append(cell(f"s{size} A3 cancel0 flush {worker} slowccb", sc, MON))
    sc = scen(pool(2), [[A("A", 2)], [M("M", 2, 1)], [cancel(rid("M", 0))], [P]], outcomes=["ret"] if q else ["ret", "exc"], ecb="plain", ccb="plain")
    out.append(cell("s2 A2|M2/1 cancelM0", sc, MON))
    sc = scen(pool(2), [[A("A", 2)], [["cancel", rid("A", 1), {"msg": "why"}]], [P]], outcomes=["ret"], ecb="plain", ccb="plain")
    out.append(cell("s2 A2 cancel1(msg)", sc, MON))
    sc = scen([pool(2), pool(2)], [[A("A", 2)], [A("B", 2, p=1)], [["probe_cancel", L, {"p": 1}]]], outcomes=["ret"], ecb="plain", ccb="plain")
    out.append(cell("two pools s2/2 A2|B2@1 probe@1", sc, MON))
    sc = scen(pool(1), [[A("A", 2)], [FLUSH], [P]], outcomes=["ret", "exc"])
    out.append(cell("s1 A2 flush nocb", sc, MON))
    sc = scen(pool(2, "SimpleTaskPool", ecb="plain", ccb="plain"), [[S("S", 3)], [["stop", 1]], [P]], outcomes=["ret"])
    out.append(cell("simple s2 S3 stop1", sc, MON))
    # cancel() issued by the scenario (not the probe), followed at once by flush(): the named tasks are cancelled for good
    for size in [1, 2]:
        sc = scen(pool(size), [[A("A", 2)], [cancel(rid("A", 1)), FLUSH], [cancel(rid("A", 0)), FLUSH_RE]], outcomes=["ret"], ecb="plain", ccb="plain")
        out.append(cell(f"s{size} A2|cancelA1,flush|cancelA0,flushRE (cancel then flush)", sc, MON))
    # tasks that have ended but still sit in their (async) end callbacks are "already ended" for cancel()
    sc = scen(pool(2), [[A("A", 2)], [P]], outcomes=["ret", "exc"], ecb="slow", ccb="plain", slow_ids=[0, 1])
    out.append(cell("s2 A2 slowecb (ended, in callback)", sc, MON))
    # a worker that passes its own id to cancel() in its first step and then suspends (zero-length suspension)
    for size in [1, 2]:
        sc = scen(pool(size), [[A("A", size, worker="yield")], [cancel(rid("A", 0))]], outcomes=["ret"], ecb="plain", ccb="plain",
                  inline={"actors": [1], "at": ["w_start"]})
        out.append(cell(f"inline s{size} A{size} yield-worker cancels itself@w_start", sc, MON))
    # several start() rounds on one SimpleTaskPool (ended, never flushed ids of an earlier round stay "already ended")
    sc = scen(pool(2, "SimpleTaskPool", ecb="plain", ccb="plain"), [[S("S", 1), S("T", 1), S("U", 1)], [["stop", 1]], [P]], outcomes=["ret"])
    out.append(cell("simple s2 S1,T1,U1 stop1 (rounds)", sc, MON))
    sc = scen(pool(1), [[A("A", 1), A("B", 1), M("M", 1, 1)], [cancel(rid("A", 0))], [P]], outcomes=["ret"], ecb="plain", ccb="plain")
    out.append(cell("s1 A1,B1,M1/1 cancelA0 (rounds)", sc, MON))
    if not q:
        sc = scen(pool(2), [[A("A", 2)], [M("M", 3, 2)], [cancel(rid("A", 1))], [FLUSH], [P]], outcomes=["ret", "exc"],
                  ecb="slow", ccb="plain", slow_ids=[1])
        out.append(cell("T s2 A2|M3/2 cancel1 flush slowecb", sc, MON))
    return out
