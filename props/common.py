"""Scenario building blocks shared by the property grids."""
import copy


def pool(size, cls="TaskPool", **kw):
    d = {"cls": cls, "size": size}
    d.update(kw)
    return d


def scen(pools, actors, **kw):
    s = {"pools": pools if isinstance(pools, list) else [pools], "actors": actors}
    s.update(kw)
    return s


def cell(name, sc, monitors, **kw):
    c = {"name": name, "scen": sc, "monitors": monitors}
    c.update(kw)
    return c


def A(tag, num, **opts):
    return ["apply", tag, num, opts] if opts else ["apply", tag, num]


def M(tag, n, nc, **opts):
    return ["map", tag, n, nc, opts] if opts else ["map", tag, n, nc]


def S(tag, num, **opts):
    return ["start", tag, num, opts] if opts else ["start", tag, num]


def rid(tag, k):
    return ["req", tag, k]


def cancel(*ids):
    return ["cancel", *ids]


def cgroup(tag):
    return ["cancel_group", tag]


CALL = ["cancel_all"]
FLUSH = ["flush"]
FLUSH_RE = ["flush", True]
GAC = ["gac"]
GAC_RE = ["gac", True]
LOCK = ["lock"]
UNLOCK = ["unlock"]
UNTIL = ["until_closed"]
PROBE = ["probe_capacity"]


def name_of(parts):
    out = []
    for p in parts:
        if isinstance(p, (list, tuple)):
            out.append(name_of(p))
        elif isinstance(p, dict):
            out.append("{" + ",".join(f"{k}={v}" for k, v in sorted(p.items())) + "}")
        else:
            out.append(str(p))
    return "(" + " ".join(out) + ")"


def with_(sc, **kw):
    s = copy.deepcopy(sc)
    s.update(kw)
    return s
