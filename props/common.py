"""Scenario building blocks shared by the property grids."""
import copy


def pool(size, cls="TaskPool", **kw):
    d = {"cls": cls, "size": size}
    d.update(kw)
    return d


def scen(pools, actors, **kw):
    s = {"pools": pools if isinstance(pools, list) else [pools], "actors": actors}
    s.update(kw)
    return s


def cell(name, sc, monitors, **kw):
    c = {"name": name, "scen": sc, "monitors": monitors}
    c.update(kw)
    return c


def A(tag, num, **opts):
    return ["apply", tag, num, opts] if opts else ["apply", tag, num]


def M(tag, n, nc, **opts):
    return ["map", tag, n, nc, opts] if opts else ["map", tag, n, nc]


def S(tag, num, **opts):
    return ["start", tag, num, opts] if opts else ["start", tag, num]


def rid(tag, k):
    return ["req", tag, k]


def cancel(*ids):
    return ["cancel", *ids]


def cgroup(tag):
    return ["cancel_group", tag]


CALL = ["cancel_all"]
FLUSH = ["flush"]
FLUSH_RE = ["flush", True]
GAC = ["gac"]
GAC_RE = ["gac", True]
LOCK = ["lock"]
UNLOCK = ["unlock"]
UNTIL = ["until_closed"]
PROBE = ["probe_capacity"]


def name_of(parts):
    out = []
    for p in parts:
        if isinstance(p, (list, tuple)):
            out.append(name_of(p))
        elif isinstance(p, dict):
            out.append("{" + ",".join(f"{k}={v}" for k, v in sorted(p.items())) + "}")
        else:
            out.append(str(p))
    return "(" + " ".join(out) + ")"


def with_(sc, **kw):
    s = copy.deepcopy(sc)
    s.update(kw)
    return s


REQS = {
    "A2": [[A("A", 2)]],
    "A3": [[A("A", 3)]],
    "A2|A2": [[A("A", 2)], [A("B", 2)]],
    "A2|M3/2": [[A("A", 2)], [M("M", 3, 2)]],
    "M3/1|A1": [[M("M", 3, 1)], [A("A", 1)]],
    "M3/2": [[M("M", 3, 2)]],
    "M4/2": [[M("M", 4, 2)]],
    "A3|M2/2": [[A("A", 3)], [M("M", 2, 2)]],
    "A1|M2/1|A1": [[A("A", 1)], [M("M", 2, 1)], [A("B", 1)]],
    "sM3/2|A1": [[M("M", 3, 2, stars=1)], [A("A", 1)]],
    "dM3/2|A1": [[M("M", 3, 2, stars=2)], [A("A", 1)]],
}

DISTS = {
    "none": [],
    "cancel0": [[cancel(rid("A", 0))]],
    "cancelM0": [[cancel(rid("M", 0))]],
    "cancelM1": [[cancel(rid("M", 1))]],
    "cancel0+cancel1": [[cancel(rid("A", 0))], [cancel(rid("A", 1))]],
    "cgroupA": [[cgroup("A")]],
    "cgroupM": [[cgroup("M")]],
    "call": [[CALL]],
    "flush": [[FLUSH]],
    "gac": [[GAC]],
    "cancel0+flush": [[cancel(rid("A", 0))], [FLUSH]],
    "cancel0+flush+flush": [[cancel(rid("A", 0))], [FLUSH], [FLUSH]],
    "cancel0+cancel1+flush": [[cancel(rid("A", 0))], [cancel(rid("A", 1))], [FLUSH]],
    "call+flush": [[CALL], [FLUSH]],
    "cgroupA+gac": [[cgroup("A")], [GAC]],
    "cgroupM+gac": [[cgroup("M")], [GAC]],
    "lock+gac": [[LOCK], [GAC]],
    "flush+gac": [[FLUSH], [GAC]],
}

CBK = {
    "nocb": dict(),
    "plain": dict(ecb="plain", ccb="plain"),
    "coro": dict(ecb="coro", ccb="coro"),
    "partial": dict(ecb="partial", ccb="apartial"),
    "method": dict(ecb="amethod", ccb="method"),
    "slowccb": dict(ecb="plain", ccb="slow", slow_ids=[0, 1]),
    "slowecb": dict(ecb="slow", ccb="coro", slow_ids=[0]),
    "slowecb1": dict(ecb="slow", ccb="plain", slow_ids=[1]),
}


def grid(monitors, sizes, reqs, dists, cbs, outs, prefix="", skip=None, **extra):
    out = []
    for size in sizes:
        for rn in reqs:
            for dn in dists:
                needs = [x for x in ("A", "M") if (x + "0" in dn or x + "1" in dn or "group" + x in dn)]
                if "cancel0" in dn or "cancel1" in dn:
                    needs.append("A")
                if any(n == "A" and "A" not in rn or n == "M" and "M" not in rn for n in needs):
                    continue
                if "cancel1" in dn and ("A1" in rn):
                    continue
                for cn in cbs:
                    for o in outs:
                        nm = f"{prefix}s{size} {rn} {dn} {cn} {'/'.join(o)}"
                        if skip and skip(size, rn, dn, cn, o):
                            continue
                        sc = scen(pool(size), REQS[rn] + DISTS[dn], outcomes=list(o), **CBK[cn], **extra)
                        out.append(cell(nm, sc, monitors))
    return out
