"""C08  gather_and_close waits for everything, then closes for good."""
from .common import *  # noqa: F401,F403

EXPLANATION = (
    "Histories before the call (pending spawner, spawner blocked on a full pool, group cancelled in the same tick "
    "including one whose spawner never ran, tasks in slow callbacks, map with elements left), a concurrent "
    "until_closed() waiter and a follow-up spawn request; complete state graph. Oracle when gather_and_close returns: "
    "no live worker, every accepted un-cancelled request fully spawned/consumed, counters 0, no callback in progress; "
    "it raises only if a task/callback raised; until_closed() is released never before and by the next idle after; "
    "later spawn requests raise PoolIsClosed; terminal: gather_and_close returned."
)
ASSUMPTIONS = ["bounds: <= 3 requests, sizes {1,2,inf}"]
BUDGET = {"quick": 150, "thorough": 900}
MON = ["C08"]


def cells(tier):
    out = []
    q = tier == "quick"
    for size in [1, 2, "inf"]:
        for rn, ra in {
            "A3": [[A("A", 3)]],
            "M3/1": [[M("M", 3, 1)]],
            "A2|M3/2": [[A("A", 2)], [M("M", 3, 2)]],
            "M3/1|A1+cgroupA": [[M("M", 3, 1)], [A("A", 1), cgroup("A")]],
            "M3/2|A2+cgroupM": [[M("M", 3, 2)], [A("A", 2)], [cgroup("M")]],
        }.items():
            if size == "inf" and "|" in rn and q:
                continue
            for un in ([False, True] if rn in ("A3", "M3/1|A1+cgroupA") else [False]):
                acts = ra + [[GAC, A("Z", 1), M("Y", 1, 1)]] + ([[UNTIL]] if un else [])
                sc = scen(pool(size), acts, outcomes=["ret"], ecb="plain", ccb="plain")
                out.append(cell(f"s{size} {rn} gac+after{' until' if un else ''}", sc, MON))
    # a task that cancels its own group (or everything) from its own code, in its first step or later, before the close
    for size in [1, 2]:
        for rn, ra in {"A2": [A("A", 2)], "M3/2": [M("A", 3, 2)]}.items():
            for on, o in {"cgroup": cgroup("A"), "call": CALL}.items():
                sc = scen(pool(size), [ra, [GAC], [o]], outcomes=["ret"], ecb="plain", ccb="plain",
                          inline={"actors": [2], "at": ["w_start", "w_resume"]})
                out.append(cell(f"inline s{size} {rn} {on}@w_start/w_resume gac", sc, MON))
    # ... the same with end callbacks that suspend (the self-cancelling worker's own end callback must run to completion)
    for size in [1, 2]:
        sc = scen(pool(size), [[A("A", 2)], [GAC], [cgroup("A")]], outcomes=["ret"], ecb="slow", ccb="coro", slow_ids=[0, 1],
                  inline={"actors": [2], "at": ["w_resume"]})
        out.append(cell(f"inline s{size} A2 cgroup@w_resume gac slowecb", sc, MON))
    # plain callbacks whose return value is an awaitable (a background flush() they started): return values are ignored
    for size in [2, "inf"]:
        sc = scen(pool(size), [[A("A", 2)], [cancel(rid("A", 0))], [GAC], [UNTIL]], outcomes=["ret"], ecb="retfut", ccb="retfut")
        out.append(cell(f"s{size} A2 cancel0 gac until cbs-return-flush-future", sc, MON, own_only=True))
    # an unbounded pool is given a size while a task sits in its (async) end callback and more tasks are due
    for new in [1, 2]:
        sc = scen(pool("inf"), [[M("M", 3, 2)], [["set_size", new]], [GAC], [UNTIL]], outcomes=["ret"], ecb="slow", ccb="plain", slow_ids=[0])
        out.append(cell(f"sinf->{new} M3/2 slowecb0|resize|gac until", sc, MON))
    # two overlapping gather_and_close() calls: each returns only when everything has finished
    for size in [2, "inf"]:
        sc = scen(pool(size), [[A("A", 2)], [GAC], [GAC], [UNTIL]], outcomes=["ret"], ecb="plain", ccb="plain")
        out.append(cell(f"s{size} A2|gac|gac|until (overlapping closes)", sc, MON))
    # cancellations with the optional msg argument (also of tasks that have not had their first step) before the close
    for size in [1, 2]:
        sc = scen(pool(size), [[A("A", 2)], [["cancel", rid("A", 1), {"msg": "why"}]], [GAC], [UNTIL]], outcomes=["ret"], ecb="plain", ccb="plain")
        out.append(cell(f"s{size} A2 cancelA1(msg) gac until", sc, MON))
        sc = scen(pool(size), [[M("M", 3, 2)], [["cancel_group", "M", {"msg": "stop"}]], [GAC]], outcomes=["ret"], ecb="plain", ccb="plain")
        out.append(cell(f"s{size} M3/2 cgroupM(msg) gac", sc, MON))
        sc = scen(pool(size), [[A("A", 2)], [["cancel_all", {"msg": "all"}]], [GAC]], outcomes=["ret"], ecb="plain", ccb="plain")
        out.append(cell(f"s{size} A2 call(msg) gac", sc, MON))
    # a flush() still in flight (blocked on a task in its slow end callback) when gather_and_close() is called
    sc = scen(pool(2), [[A("A", 2)], [FLUSH], [GAC], [UNTIL]], outcomes=["ret"], ecb="slow", ccb="plain", slow_ids=[0, 1])
    out.append(cell("s2 A2 flush(in flight) gac until slowecb[0,1]", sc, MON))
    sc = scen(pool(2), [[A("A", 2)], [cancel(rid("A", 0))], [FLUSH_RE], [GAC]], outcomes=["ret"], ecb="coro", ccb="slow", slow_ids=[0])
    out.append(cell("s2 A2 cancel0 flushRE(in flight) gac slowccb0", sc, MON))
    for size in [1, 2]:
        sc = scen(pool(size), [[A("X", size)], [A("A", 2), cgroup("A"), A("B", 3)], [GAC]], outcomes=["ret"])
        out.append(cell(f"s{size} X{size}|A2,cgroupA,B3 (auto name re-used at once)|gac", sc, MON))
        # tasks whose body never suspends, cancelled before their first step, with suspending end callbacks
        sc = scen(pool(2), [[A("A", 2, worker="instant")], [cancel(rid("A", size - 1))], [GAC]], outcomes=["ret"], ecb="slow", ccb="plain", slow_ids=[0, 1])
        out.append(cell(f"s2 A2 instant cancel{size - 1} gac slowecb", sc, MON))
        sc = scen(pool(2), [[A("A", 2, worker="instant")], [cgroup("A")], [GAC]], outcomes=["ret"], ecb="slow", ccb="coro", slow_ids=[0, 1])
        out.append(cell(f"s2 A2 instant cgroup gac slowecb ({size})", sc, MON)) if size == 1 else None
    for size in [1, 2]:
        sc = scen(pool(size), [[M("G", 3, 1, name="g")], [cgroup("G"), M("G2", 3, 1, name="g", needs_cancelled="G")], [GAC]], outcomes=["ret"])
        out.append(cell(f"s{size} M3/1 g|cgroup,M3/1 g again|gac", sc, MON))
        sc = scen(pool(size), [[M("G", 3, 1)], [cgroup("G"), M("G2", 2, 1)], [GAC]], outcomes=["ret"])
        out.append(cell(f"s{size} M3/1|cgroup,M2/1 (auto names)|gac", sc, MON))
    for size in [1, 2]:
        sc = scen(pool(size), [[A("A", 2)], [cancel(rid("A", 0))], [GAC], [UNTIL]], outcomes=["ret"], ecb="slow", ccb="slow", slow_ids=[0])
        out.append(cell(f"s{size} A2 cancel0 gac until slowcbs", sc, MON))
        sc = scen(pool(2), [[A("A", size + 1)], [GAC], [UNTIL]], outcomes=["ret"], ecb="slow", slow_ids=[0, 1])
        out.append(cell(f"s2 A{size + 1} gac until slowecb[0,1]", sc, MON))
        sc = scen(pool(2), [[A("A", 2)], [cancel(rid("A", size - 1))], [GAC]], outcomes=["ret"], ecb="coro", ccb="slow", slow_ids=[0, 1])
        out.append(cell(f"s2 A2 cancel{size - 1} gac slowccb[0,1]", sc, MON))
        sc = scen(pool(size), [[A("A", 2)], [M("M", 2, 1)], [CALL], [GAC]], outcomes=["ret", "exc"], ecb="plain", ccb="plain")
        out.append(cell(f"s{size} A2|M2/1 call gac", sc, MON))
        sc = scen(pool(size, "SimpleTaskPool", ecb="plain"), [[S("S", 3)], [GAC, S("Z", 1)], [UNTIL]], outcomes=["ret"])
        out.append(cell(f"simple s{size} S3 gac+after until", sc, MON))
    if not q:
        for size in [1, 2, 3]:
            sc = scen(pool(size), [[M("M", 4, 2)], [A("A", 2), cgroup("A")], [A("B", 1)], [GAC_RE], [UNTIL]], outcomes=["ret", "exc"], ecb="plain", ccb="plain")
            out.append(cell(f"T s{size} M4/2|A2+cgroupA|B1 gac(re) until", sc, MON))
            sc = scen(pool(size), [[M("M", 3, 1)], [A("A", 2)], [cgroup("M")], [FLUSH], [GAC]], outcomes=["ret"], ecb="slow", ccb="plain", slow_ids=[0])
            out.append(cell(f"T s{size} M3/1|A2 cgroupM flush gac slowecb", sc, MON))
    return out
