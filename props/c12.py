"""C12  A failing task or callback harms only itself."""
from .common import *  # noqa: F401,F403

EXPLANATION = (
    "Healthy work (apply + map) with every placement of faults from {worker exception (outcome menu), raising call "
    "site, raising end callback, raising cancel callback (plain and coroutine)} on designated ids, followed by "
    "flush()/gather_and_close() with return_exceptions in {False, True}; complete state graph. Oracle: the siblings' "
    "C04/C05 oracles (every other invocation/element proceeds), the C02 accounting and capacity probe (slot released), "
    "and what flush/gather_and_close raise is one of the injected exceptions (identity tag) - nothing with return_exceptions=True."
)
ASSUMPTIONS = ["bounds: <= 2 faults, <= 5 tasks"]
BUDGET = {"quick": 150, "thorough": 900}
MON = ["C12", "C04", "C05", "C02"]


def cells(tier):
    out = []
    # a failed task whose (finished) group is cancelled before the next flush()/close: its exception is still raised
    for dn, da in {"flush": [[FLUSH]], "gac": [[GAC]]}.items():
        sc = scen(pool(2), [[A("A", 2)], [cgroup("A")], [CALL]] + da, outcomes=["ret", "exc"], ecb="plain", ccb="plain")
        out.append(cell(f"s2 A2 exc|cgroupA|call|{dn} (finished group cancelled)", sc, MON))
    for size in [2, "inf"]:
        sc = scen(pool(size, "SimpleTaskPool", fault=[0, 1], ecb="plain", ccb="plain"), [[S("S", 2), S("T", 2)], [cgroup("S")]], outcomes=["ret"])
        # (C04's per-request count cannot attribute failing call sites to one of several start() requests: not used here)
        out.append(cell(f"simple s{size} S2 (every call site raises),T2|cgroupS", sc, ["C12", "C02", "C10", "C07"], own_only=True))
    for dn, da in {"gac": [[GAC]], "flush,gac": [[FLUSH], [GAC]], "gacRE": [[GAC_RE]]}.items():
        sc = scen(pool(2), [[A("A", 2, worker="retexc")], [A("B", 1)]] + da, outcomes=["ret", "exc"], ecb="plain", ccb="plain")
        out.append(cell(f"s2 A2 returns-an-exception-instance|B1 {dn}", sc, MON))
    q = tier == "quick"
    for size in [1, 2]:
        for fin, fa in {"flush": FLUSH, "flushRE": FLUSH_RE, "gac": GAC, "gacRE": GAC_RE}.items():
            # worker exceptions
            sc = scen(pool(size), [[A("A", 2)], [M("M", 2, 1)], [fa]], outcomes=["ret", "exc"], ecb="plain", ccb="plain")
            out.append(cell(f"s{size} A2|M2/1 exc {fin}", sc, MON))
            # raising callbacks on designated ids
            for cbn, cb in {
                "ecb-raise": dict(ecb="raise", ccb="plain", slow_ids=[0]),
                "ecb-araise": dict(ecb="araise", ccb="plain", slow_ids=[1]),
                "ccb-raise": dict(ecb="plain", ccb="raise", slow_ids=[0]),
                "ccb-araise": dict(ecb="coro", ccb="araise", slow_ids=[0, 1]),
                "ecb-praise": dict(ecb="praise", ccb="plain", slow_ids=[0]),
                "ccb-apraise": dict(ecb="coro", ccb="apraise", slow_ids=[0]),
            }.items():
                if q and fin in ("flushRE",) and cbn.startswith("ecb-a"):
                    continue
                da = [[cancel(rid("A", 0))]] if "ccb" in cbn else []
                sc = scen(pool(size), [[A("A", 2)], [M("M", 2, 1)]] + da + [[fa]], outcomes=["ret"], **cb)
                out.append(cell(f"s{size} A2|M2/1 {cbn} {fin}", sc, MON))
        # a failing worker while another task sits in a slow (async) cancel callback, then flush
        sc = scen(pool(size + 1), [[A("A", 3)], [cancel(rid("A", 0))], [FLUSH]], outcomes=["ret", "exc"], ecb="plain", ccb="slow", slow_ids=[0])
        out.append(cell(f"s{size + 1} A3 cancel0 flush slowccb0 ret/exc", sc, MON))
        sc = scen(pool(size), [[A("A", 2)], [A("B", 1), cgroup("B")], [FLUSH]], outcomes=["ret", "exc"])
        out.append(cell(f"s{size} A2|B1,cgroupB (withdrawn at once)|flush ret/exc", sc, MON))
        sc = scen(pool(size), [[A("A", 3, fault=[["T", 1]])], [M("M", 3, 2, bad=[["T", 0], 2])], [GAC]], outcomes=["ret", "exc"])
        out.append(cell(f"s{size} A3 typefault[1]|M3/2 typebad[0],bad[2] gac", sc, MON))
        sc = scen(pool(size), [[A("A", 3, fault=[0])], [M("M", 2, 1)], [FLUSH]], outcomes=["ret", "exc"])
        out.append(cell(f"s{size} A3 fault[0]|M2/1 flush", sc, MON))
        sc = scen(pool(size, "SimpleTaskPool", args=1, kwargs=0, fault=[0]), [[S("S", 3)], [GAC]], outcomes=["ret"])
        out.append(cell(f"simple s{size} S3 fault[0] gac", sc, ["C12", "C04", "C02"]))
        # raising call sites
        sc = scen(pool(size), [[A("A", 3, fault=[1])], [M("M", 3, 2, bad=[0, 2])], [GAC]], outcomes=["ret", "exc"])
        out.append(cell(f"s{size} A3 fault[1]|M3/2 bad[0,2] gac", sc, MON))
    if not q:
        for size in [1, 2, 3]:
            sc = scen(pool(size), [[A("A", 2, ecb="raise")], [M("M", 3, 2, bad=[1], ecb="araise")], [cancel(rid("M", 0))], [FLUSH], [GAC_RE]],
                      outcomes=["ret", "exc"], ccb="plain", slow_ids=[0, 2])
            out.append(cell(f"T s{size} A2 ecb-raise|M3/2 bad[1] ecb-araise|cancelM0|flush|gacRE", sc, MON))
    return out
