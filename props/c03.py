"""C03  Task lifecycle and callbacks are exact and ordered."""
from .common import *  # noqa: F401,F403

EXPLANATION = (
    "Per cell the complete reachable state graph. Oracle at every boundary and user-code point: each created id is "
    "classified (worker records + cancel(id) probe on exited ids) as exactly one of running/cancelled/ended/forgotten, "
    "classification monotone, num_running/num_cancelled/num_ended equal the per-id classification; at callback entry: "
    "called once, own id counts as ended (end cb) / cancelled (cancel cb), cancel cb completed before end cb, only after "
    "the coroutine finished; terminal: every begun callback completed, end cb exactly once, cancel cb once iff cancelled."
)
ASSUMPTIONS = ["bounds: <= 3 requests, <= 6 tasks, sizes {1,2,inf}"]
BUDGET = {"quick": 150, "thorough": 900}
MON = ["C03"]


def cells(tier):
    out = []
    q = tier == "quick"
    out += grid(MON, [1, 2], ["A2", "A2|M3/2"], ["none", "cancel0", "cancel0+cancel1", "cgroupA", "call", "cancel0+flush"],
                ["plain", "coro"], [["ret", "exc"], ["ret"]],
                skip=lambda s, rn, dn, cn, o: (cn == "coro" and rn != "A2") or (len(o) == 1) != (q and rn == "A2|M3/2" and s == 2 and "+" in dn))
    out += grid(MON, [2], ["A2", "M3/2"], ["cancel0", "cancelM0", "call", "call+flush"], ["partial", "method", "slowccb", "slowecb"], [["ret"]])
    # a worker that cancels its own group (or itself by id) from its own code in its last step; callbacks that suspend
    for size in [1, 2]:
        for on, o in {"cgroup": cgroup("A"), "cancel0": cancel(rid("A", 0))}.items():
            sc = scen(pool(size), [[A("A", 2)], [o]], outcomes=["ret"], ecb="slow", ccb="slow", slow_ids=[0, 1],
                      inline={"actors": [1], "at": ["w_resume"]})
            out.append(cell(f"inline s{size} A2 {on}@w_resume slowcbs (self-cancel in the last step)", sc, MON))
    sc = scen(pool(2, name="named"), [[A("A", 2)], [["cancel", rid("A", 0), {"msg": "m1"}]], [["cancel_group", "A", {"msg": "m2"}]]], outcomes=["ret", "exc"], ecb="plain", ccb="coro")
    out.append(cell("s2 named pool A2 cancel0(msg) cgroupA(msg)", sc, MON))
    sc = scen(pool(1, "SimpleTaskPool", name="simple", ecb="amethod", ccb="method"), [[S("S", 2)], [["cancel_all", {"msg": "bye"}]], [FLUSH]], outcomes=["ret"])
    out.append(cell("simple named s1 S2 call(msg) flush method-cbs", sc, MON))
    out += grid(MON, ["inf"], ["A2|M3/2"], ["cancel0", "call", "gac"], ["plain"], [["ret"]] if q else [["ret", "exc"]])
    for size in [2, 3]:
        sc = scen(pool(size), [[A("A", 3)], [cancel(rid("A", 0))], [FLUSH]], outcomes=["ret", "exc"], ecb="plain", ccb="slow", slow_ids=[0])
        out.append(cell(f"s{size} A3 cancel0 flush slowccb0 ret/exc", sc, MON))
    sc = scen(pool(2), [[A("A", 2)], [cancel(rid("A", 0))], [FLUSH], [["cancel_op", 2]]], outcomes=["ret"], ecb="slow", ccb="slow", slow_ids=[0])
    out.append(cell("s2 A2 cancel0 flush flush-caller-cancelled slowcbs", sc, MON))
    sc = scen(pool(2), [[A("A", 2, worker="instant")], [cancel(rid("A", 1))], [FLUSH]], outcomes=["ret"], ecb="slow", ccb="plain", slow_ids=[0, 1])
    out.append(cell("s2 A2 instant cancel1 flush slowecb", sc, MON))
    # absorbing workers: a cancelled coroutine that swallows the cancellation ends normally
    for size in [2]:
        sc = scen(pool(size), [[A("A", 2, worker="absorb")], [cancel(rid("A", 0))], [cancel(rid("A", 1))]],
                  outcomes=["ret", "exc"], ecb="plain", ccb="plain")
        out.append(cell(f"absorb s{size} A2 cancel0+cancel1", sc, MON))
    for size in [1, 2]:
        sc = scen(pool(size, "SimpleTaskPool", ecb="coro", ccb="plain"), [[S("S", 2)], [S("T", 1)], [["stop", 1]], [FLUSH]],
                  outcomes=["ret", "exc"])
        out.append(cell(f"simple s{size} S2|S1 stop1 flush", sc, MON))
    if not q:
        out += grid(MON, [1, 2, 3], ["A3|M2/2", "M4/2", "A1|M2/1|A1"],
                    ["cancel0", "cancelM1", "cgroupM", "call", "cancel0+flush+flush", "call+flush", "flush+gac"],
                    ["plain", "slowccb", "slowecb1"], [["ret", "exc"]], prefix="T ",
                    skip=lambda s, rn, dn, cn, o: cn != "plain" and ("flush+flush" in dn or s == 3))
    return out
