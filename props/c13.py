"""C13  flush forgets finished tasks only."""
from .common import *  # noqa: F401,F403

EXPLANATION = (
    "3-4 tasks with cancellations, slow cancel/end callbacks and 1-2 (overlapping) flush() calls, return_exceptions in "
    "{False,True}, failing workers present/absent; complete state graph. Oracle: every id that had finished (worker exited, "
    "callbacks completed) before a flush() call is unknown to cancel() once that flush returns; at every boundary/user-code "
    "point a task inside its callbacks is still known (cancelled/ended), num_running >= live workers; every created id "
    "still receives its end callback (C02 oracle); flush(True) never raises; flush always returns."
)
ASSUMPTIONS = ["bounds: <= 4 tasks, <= 2 flushes"]
BUDGET = {"quick": 150, "thorough": 900}
MON = ["C13", "C02"]


def cells(tier):
    out = []
    q = tier == "quick"
    for size in [2, 3]:
        for cbn in ["slowccb", "slowecb", "plain"]:
            for fl in ([[FLUSH]], [[FLUSH], [FLUSH_RE]]):
                if q and len(fl) == 2 and (cbn == "plain" or (size == 3 and cbn == "slowecb")):
                    continue
                cb = dict(CBK[cbn])
                if cbn == "slowecb":
                    cb["slow_ids"] = [0, 1]
                sc = scen(pool(size), [[A("A", 3)], [cancel(rid("A", 0))], [cancel(rid("A", 1))]] + fl,
                          outcomes=["ret"] if cbn != "plain" else ["ret", "exc"], **cb)
                out.append(cell(f"s{size} A3 cancel0 cancel1 {cbn} flush x{len(fl)}", sc, MON))
    for size in [2, 3]:
        sc = scen(pool(size), [[A("A", 3)], [cancel(rid("A", 0))], [FLUSH]], outcomes=["ret", "exc"], ecb="plain", ccb="slow", slow_ids=[0])
        out.append(cell(f"s{size} A3 cancel0 flush slowccb0 ret/exc", sc, MON))
    sc = scen(pool(2), [[A("A", 2)], [M("M", 2, 1)], [FLUSH_RE]] + ([] if q else [[FLUSH_RE]]), outcomes=["ret", "exc"], ecb="slow", slow_ids=[1])
    out.append(cell("s2 A2|M2/1 exc flushRE x2 slowecb1", sc, MON))
    sc = scen(pool(2), [[A("A", 2)], [cancel(rid("A", 0))], [FLUSH], [["cancel_op", 2]], [FLUSH_RE]], outcomes=["ret"], ecb="slow", ccb="slow", slow_ids=[0])
    out.append(cell("s2 A2 cancel0 flush flush-caller-cancelled flushRE slowcbs", sc, MON))
    sc = scen(pool(2, "SimpleTaskPool", ecb="slow", ccb="plain", slow_ids=[0]), [[S("S", 3)], [["stop", 1]], [FLUSH], [FLUSH]], outcomes=["ret"])
    out.append(cell("simple s2 S3 stop1 flush x2 slowecb0", sc, MON))
    for size in [2, "inf"]:
        # the group of the flushed tasks is cancelled and its name re-used for new (running) tasks while flush() waits
        sc = scen(pool(size), [[A("A", 2, name="g")], [FLUSH], [cgroup("A"), A("B", 1, name="g", needs_cancelled="A")]],
                  outcomes=["ret"], ecb="slow", ccb="plain", slow_ids=[0])
        out.append(cell(f"s{size} A2 name g|flush|cgroupA,B1 re-uses g slowecb0", sc, MON))
        sc = scen(pool(size), [[A("A", 1)], [FLUSH_RE], [CALL, A("B", 1)]], outcomes=["ret"], ecb="slow", ccb="slow", slow_ids=[0])
        out.append(cell(f"s{size} A1|flushRE|call,B1 (generated name re-used) slowcbs", sc, MON))
    # two flushes overlapping around a spawner that was cancelled in the same loop iteration
    sc = scen(pool(1), [[A("X", 1), A("A", 2)], [cgroup("A"), FLUSH_RE], [FLUSH_RE], [FLUSH]], outcomes=["ret"])
    out.append(cell("s1 X1,A2|cgroupA,flushRE|flushRE|flush (just-cancelled spawner)", sc, MON))
    # a worker that absorbs its cancellation (keeps running, or winds down normally), flush() in between: finished ones
    # become unknown, the running one stays counted and cancellable (probe_cancel under the C06 oracle)
    sc = scen(pool(2), [[A("A", 2, worker="absorb")], [cancel(rid("A", 0))], [FLUSH], [["probe_cancel", 2]]], outcomes=["ret"], ecb="plain", ccb="plain")
    out.append(cell("s2 A2 absorb cancel0 flush probe", sc, MON + ["C06"]))
    if not q:
        for size in [1, 2]:
            sc = scen(pool(size), [[A("A", 2)], [M("M", 3, 2)], [CALL], [FLUSH], [FLUSH_RE]], outcomes=["ret", "exc"], ecb="plain", ccb="slow", slow_ids=[0, 2])
            out.append(cell(f"T s{size} A2|M3/2 call flush flushRE slowccb", sc, MON))
    return out
