"""C20  Queue context manager marks every taken item processed exactly once."""
EXPLANATION = (
    "Producers (put_nowait x <= 3), 1-2 consumers running `async with queue as item:` for 1-2 rounds whose body waits "
    "on a gate and returns or raises, cancellation of each consumer at every boundary (before an item arrives, inside "
    "the body), and a join() actor; complete reachable state graph of the real Queue on the virtual loop. Oracle at "
    "every boundary and at block entry: no consumer ends with ValueError (task_done too often); with Z := 'at some "
    "point at or after the join() call every item put so far had been taken and its block had exited': join() done "
    "=> Z (never early) and, at every idle state, Z => join() done (never hangs); no item handed to two blocks."
)
ASSUMPTIONS = ["bounds: <= 3 puts, <= 2 consumers x <= 2 rounds, <= 2 cancellations, one join()"]
BUDGET = {"quick": 120, "thorough": 900}


def cell(name, **scen):
    return {"name": name, "world": "queue", "scen": scen, "monitors": []}


def cells(tier):
    out = []
    q = tier == "quick"
    P = ["put"]
    J = ["join"]
    out.append(cell("c1 r1 put join", consumers=1, rounds=1, actors=[[P], [J]]))
    out.append(cell("c1 r2 put,put join cancel0", consumers=1, rounds=2, actors=[[P, P], [J], [["cancel", 0]]]))
    out.append(cell("c2 r1 put,put cancel0 cancel1 join", consumers=2, rounds=1, actors=[[P, P], [["cancel", 0]], [J], [["cancel", 1]]]))
    out.append(cell("c2 r1 put|put join cancel0", consumers=2, rounds=1, actors=[[P], [P], [J], [["cancel", 0]]]))
    out.append(cell("c2 r2 put,put,put join cancel1", consumers=2, rounds=2, actors=[[P, P, P], [J], [["cancel", 1]]]))
    out.append(cell("c1 r2 put join put", consumers=1, rounds=2, actors=[[P], [J], [P]]))
    out.append(cell("c2 r1 put,put join (block left by return / exception / exception group)", consumers=2, rounds=1, actors=[[P, P], [J]],
                    outcomes=["ret", "exc", "group"]))
    A = ["aput"]
    out.append(cell("bounded1 c1 r2 aput,aput join", consumers=1, rounds=2, maxsize=1, actors=[[A, A], [J]]))
    out.append(cell("bounded1 c2 r1 aput|aput|aput join cancel0", consumers=2, rounds=1, maxsize=1, actors=[[A], [A], [A], [J], [["cancel", 0]]]))
    out.append(cell("bounded1 c1 r3 aput,aput,aput cancel_prod1 join", consumers=1, rounds=3, maxsize=1, actors=[[A, A, A], [["cancel_prod", 1]], [J]]))
    out.append(cell("bounded1 c1 r2 aput,aput join|join (two callers of join, refill in between)", consumers=1, rounds=2, maxsize=1,
                    actors=[[A, A], [J], [J]]))
    out.append(cell("c2 r1 put|put join|join", consumers=2, rounds=1, actors=[[P], [P], [J], [J]]))
    if not q:
        out.append(cell("T c2 r2 put,put|put join cancel0 cancel1", consumers=2, rounds=2,
                        actors=[[P, P], [P], [J], [["cancel", 0]], [["cancel", 1]]]))
        out.append(cell("T c3 r1 put,put,put join cancel0 cancel2", consumers=3, rounds=1,
                        actors=[[P, P, P], [J], [["cancel", 0]], [["cancel", 2]]]))
    return out
