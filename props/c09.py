"""C09  Rejected requests leave no trace; lock/unlock gate new requests."""
from .common import *  # noqa: F401,F403

EXPLANATION = (
    "Histories (spawn, lock, unlock, cancel_group, gather_and_close -> closed) are explored completely; at EVERY boundary "
    "state a terminal branch issues one rejected request: method in {apply,map,starmap,doublestarmap} (start for "
    "SimpleTaskPool) x every subset of the causes {locked, non-coroutine function, num_concurrent 0 / -1, duplicate "
    "group name} (closed comes from the history), plus pool_size=-1, TaskPool(pool_size=-1), lock();lock(), "
    "unlock();unlock(). Oracle: a documented error whose cause is present; public observation vector, iterator, "
    "function-call counter and the loop's ready queue identical before/after; nothing starts when the loop runs on; "
    "the empty cause set must be accepted (keeps the probe honest)."
)
ASSUMPTIONS = ["bounds: histories of <= 4 operations, 2 pool classes"]
BUDGET = {"quick": 240, "thorough": 900}
SOFT_S = {"quick": 60}  # few states, many probe alternatives per state: cells are slow but small
MON = ["C09"]
P = ["probe_reject"]


def cells(tier):
    out = []
    q = tier == "quick"
    H = {
        "A2": [[A("A", 2)]],
        "A1|lock": [[A("A", 1)], [LOCK]],
        "A2|lock,unlock": [[A("A", 2)], [LOCK, UNLOCK]],
        "M2/1|gac": [[M("M", 2, 1)], [GAC]],
        "A2+cgroupA|lock": [[A("A", 2), cgroup("A")], [LOCK]],
        "A1|M2/2|gac": [[A("A", 1)], [M("M", 2, 2)], [GAC]],
        "M0/1 e,flush|A1": [[M("E", 0, 1, name="e"), FLUSH], [A("A", 1)]],
        "M2/1 allbad,flush": [[M("E", 2, 1, name="e", bad=[0, 1]), FLUSH]],
        "A1|gac,unlock": [[A("A", 1)], [GAC, UNLOCK]],
        "A1|gac|unlock,lock,unlock": [[A("A", 1)], [GAC], [UNLOCK, LOCK, UNLOCK]],
    }
    for size in ([1, 2] if q else [0, 1, 2, "inf"]):
        for hn, h in H.items():
            if q and size == 2 and hn in ("A1|M2/2|gac",):
                continue
            sc = scen(pool(size), h + [[P]], outcomes=["ret"])
            out.append(cell(f"s{size} {hn}", sc, MON))
    # rejected requests in a pool that was resized (over-occupied after a shrink, grown, made unbounded)
    for old, seq in [(3, [1]), (2, [0, 3]), (1, ["inf", 1]), ("inf", [1])]:
        sc = scen(pool(old), [[A("A", 3)], [["set_size", v] for v in seq], [P]], outcomes=["ret"])
        out.append(cell(f"s{old} A3|resize{seq}", sc, MON))
    # a close attempt that is cancelled while the spawner of a named, still empty group waits for room; pool used again
    sc = scen(pool(1), [[A("X", 1), A("G", 2, name="g")], [["gac", {"when": "quiet_idle"}]], [["cancel_op", 1]],
                        [["unlock", {"after": [1, 1], "after_done": True}]], [P]], outcomes=["ret"])
    out.append(cell("s1 X1,G2 named|gac@idle|cancel-the-close|unlock", sc, MON, own_only=True))
    # lock()/unlock() while a flush() is suspended on a slow callback
    sc = scen(pool(2), [[A("A", 2)], [cancel(rid("A", 0))], [FLUSH], [LOCK], [P]], outcomes=["ret"], ecb="plain", ccb="slow", slow_ids=[0])
    out.append(cell("s2 A2 cancelA0 flush(in flight)|lock slowccb0", sc, MON))
    sc = scen(pool(2), [[A("A", 2), LOCK], [FLUSH_RE], [UNLOCK], [P]], outcomes=["ret"], ecb="slow", ccb="plain", slow_ids=[0])
    out.append(cell("s2 A2,lock flushRE(in flight)|unlock slowecb0", sc, MON))
    for size in [1, 2]:
        sc = scen(pool(size, "SimpleTaskPool"), [[S("S", 2)], [LOCK, UNLOCK], [GAC], [P]], outcomes=["ret"])
        out.append(cell(f"simple s{size} S2|lock,unlock|gac", sc, MON))
    return out
