"""C01  Pool size is never exceeded."""
from .common import *  # noqa: F401,F403

EXPLANATION = (
    "Per cell the complete reachable state graph of the real pool on the virtual loop. Oracle at every boundary and "
    "every user-code point (worker start/resume/cancel, callbacks, iterator, call site): live workers <= size and "
    "num_running <= size; at every quiet idle state is_full == (num_running == size)."
)
ASSUMPTIONS = ["bounds: pool size in {0,1,2,3,inf}, <= 3 concurrent requests, <= 7 tasks; the size is never re-assigned (C15 does that)"]
BUDGET = {"quick": 150, "thorough": 900}
MON = ["C01"]


def cells(tier):
    out = []
    q = tier == "quick"
    out += grid(MON, [0, 1, 2], ["A2", "A2|M3/2", "M3/1|A1"], ["none", "cancel0", "cgroupA", "call", "flush", "gac"],
                ["plain"], [["ret"], ["ret", "exc"]],
                skip=lambda s, rn, dn, cn, o: (s == 0 and len(o) > 1) or (q and s == 2 and rn == "A2|M3/2" and len(o) > 1 and dn in ("flush", "gac", "call")))
    out += grid(MON, [1, 2], ["A2|M3/2"], ["cancel0", "call", "cancel0+flush"], ["slowecb", "slowccb"], [["ret"]],
                skip=lambda s, rn, dn, cn, o: q and s == 2 and dn == "cancel0+flush")
    # spawn requests issued from user code the pool runs (worker start, end callback)
    for size in [1, 2]:
        for at in (["w_start"], ["ecb"], ["ccb", "w_cancel"]):
            sc = scen(pool(size), [[A("A", 2)], [A("B", 1)], [cancel(rid("A", 0))]], outcomes=["ret"],
                      ecb="plain", ccb="plain", inline={"actors": [1], "at": at})
            out.append(cell(f"inline s{size} A2 +apply@{'/'.join(at)} cancel0", sc, MON))
            sc = scen(pool(size), [[M("M", 3, 2)], [A("B", 1)]], outcomes=["ret"],
                      ecb="plain", ccb="plain", inline={"actors": [1], "at": at + ["iter"]})
            out.append(cell(f"inline s{size} M3/2 +apply@{'/'.join(at)}/iter", sc, MON))
    for size in [1, 2]:
        # a worker cancels its own group / itself from its own code and then finishes without suspending again
        for at in (["w_resume"], ["w_start"]):
            sc = scen(pool(size), [[A("A", 2)], [A("B", 2)], [cgroup("A")]], outcomes=["ret"], ecb="plain", ccb="plain",
                      inline={"actors": [2], "at": at})
            out.append(cell(f"inline s{size} A2|B2 cgroupA@{at[0]} (self-cancel)", sc, MON))
        sc = scen(pool(size), [[A("A", 3)], [FLUSH], [["cancel_op", 1]], [A("B", 1)]], outcomes=["ret"], ecb="slow", ccb="plain", slow_ids=[0])
        out.append(cell(f"s{size} A3 flush flush-caller-cancelled B1 slowecb0", sc, MON))
        sc = scen(pool(size), [[A("A", 2, worker="instant")], [cancel(rid("A", 0))], [A("B", 2)]], outcomes=["ret"], ecb="slow", ccb="plain", slow_ids=[0, 1])
        out.append(cell(f"s{size} A2 instant cancel0 B2 slowecb", sc, MON))
    sc = scen([pool(1), pool(2)], [[A("A", 2)], [M("M", 2, 2, p=1)], [cgroup("A")]], outcomes=["ret"], ecb="plain", ccb="plain")
    out.append(cell("two pools s1/2 A2|M2/2@1 cgroupA", sc, MON))
    # SimpleTaskPool
    for size in [0, 1, 2]:
        sc = scen(pool(size, "SimpleTaskPool", ecb="plain", ccb="plain"), [[S("S", 2)], [S("T", 2)], [["stop", 1]]],
                  outcomes=["ret", "exc"] if size else ["ret"])
        out.append(cell(f"simple s{size} S2|S2 stop1", sc, MON))
    if not q:
        out += grid(MON, [3, "inf"], ["A2|M3/2", "A3|M2/2", "M4/2"], ["none", "cancel0", "cgroupA", "call", "flush", "gac"],
                    ["plain"], [["ret", "exc"]], prefix="T ")
        out += grid(MON, [1, 2], ["A3|M2/2", "A1|M2/1|A1", "sM3/2|A1", "dM3/2|A1"], ["cancel0", "cgroupM", "call+flush", "flush+gac"],
                    ["plain", "slowecb"], [["ret", "exc"]], prefix="T ",
                    skip=lambda s, rn, dn, cn, o: cn == "slowecb" and "flush" in dn and s == 2)
    # the size is set while the pool has nothing in flight (a fresh or a drained pool), and is fixed from then on
    for old, new in [("inf", 2), ("inf", 1), (3, 1), (1, 2)]:
        sc = scen(pool(old), [[["set_size", new], A("A", 3)], [A("B", 1)]], outcomes=["ret"])
        out.append(cell(f"s{old}->{new} while idle, then A3|B1", sc, MON))
    sc = scen(pool("inf"), [[A("A", 2)], [FLUSH, ["set_size", 1, {"when": "quiet_idle"}], A("B", 2)]], outcomes=["ret"])
    out.append(cell("sinf A2|flush,size1@idle,B2", sc, MON))
    # cancellations carrying the optional msg, also of tasks that have not had their first step
    for size in [1, 2]:
        for on, o in {"call(msg)": ["cancel_all", {"msg": "m"}], "cgroup(msg)": ["cancel_group", "A", {"msg": "m"}],
                      "cancel0(msg)": ["cancel", rid("A", 0), {"msg": "m"}]}.items():
            sc = scen(pool(size), [[A("A", 2)], [o], [A("B", 1)]], outcomes=["ret"])
            out.append(cell(f"s{size} A2|{on}|B1", sc, MON))
    return out
