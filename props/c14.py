"""C14  SimpleTaskPool.stop is LIFO and exact."""
from .common import *  # noqa: F401,F403

EXPLANATION = (
    "start(k) once or twice (<= 5 tasks), gaps made by finishing / cancel(id), then stop(n) for n in {-1,0,1,2,5} and "
    "stop_all() at every boundary of the complete state graph. Oracle: the returned list is the min(n, R) highest ids "
    "of the tasks still running (created, coroutine not finished; a pending undelivered cancellation still counts), "
    "newest first; exactly those workers (and the ones cancelled explicitly) observe a cancellation, and have exited by the next quiet idle."
)
ASSUMPTIONS = ["bounds: <= 5 tasks, sizes {2,3,inf}"]
BUDGET = {"quick": 120, "thorough": 900}
MON = ["C14"]


def cells(tier):
    out = []
    q = tier == "quick"
    for size in [2, "inf"] if q else [1, 2, 3, "inf"]:
        for n in [-1, 0, 1, 2, 5]:
            sc = scen(pool(size, "SimpleTaskPool", ecb="plain", ccb="plain"), [[S("S", 2), S("T", 2)], [cancel(rid("S", 1))], [["stop", n]]], outcomes=["ret"])
            out.append(cell(f"s{size} S2,T2 cancel1 stop({n})", sc, MON))
        sc = scen(pool(size, "SimpleTaskPool"), [[S("S", 3)], [["stop", 1], ["stop", 1]], [["stop_all"]]], outcomes=["ret", "exc"])
        out.append(cell(f"s{size} S3 stop1,stop1 stop_all", sc, MON))
    for size in [2, 3]:
        # a stopped task parked in its (slow, async) cancel callback when the next stop arrives
        sc = scen(pool(size, "SimpleTaskPool", ecb="plain", ccb="slow", slow_ids=[1, 2]), [[S("S", 3)], [["stop", 1], ["stop", 1]], [["stop_all"]]], outcomes=["ret"])
        out.append(cell(f"s{size} S3 stop1,stop1 stop_all slowccb", sc, MON))
    # stop_all() / stop(n) in a pool shrunk below the number of running tasks
    for new in [0, 1]:
        sc = scen(pool(3, "SimpleTaskPool", ecb="plain", ccb="plain"), [[S("S", 3)], [["set_size", new]], [["stop_all"]]], outcomes=["ret"])
        out.append(cell(f"s3->{new} S3|shrink|stop_all", sc, MON))
    sc = scen(pool(3, "SimpleTaskPool", ecb="plain", ccb="plain"), [[S("S", 3)], [cancel(rid("S", 1))], [["set_size", 1]], [["stop", 2]]], outcomes=["ret"])
    out.append(cell("s3->1 S3 cancel1|shrink|stop(2)", sc, MON))
    # a locked pool whose accepted start() still has a spawn queued: the fresh task is stopped before/after its first step
    for size in [1, 2]:
        sc = scen(pool(size, "SimpleTaskPool", ecb="plain", ccb="plain"), [[S("S", size + 1)], [LOCK], [["stop", 1], ["stop", 1]]], outcomes=["ret"])
        out.append(cell(f"s{size} S{size + 1}|lock|stop(1),stop(1) (queued spawn in a locked pool)", sc, MON))
    # the pool is used again after an attempt to close it failed (a worker raised) or was cancelled
    sc = scen(pool("inf", "SimpleTaskPool", ecb="plain", ccb="plain"), [[S("S", 3)], [["gac", {"when": "quiet_idle"}]], [["cancel_op", 1]],
                [["unlock", {"after": [1, 1], "after_done": True}], S("T", 1), ["stop", 2]]], outcomes=["ret"])
    # (the close is only attempted once every created task has had its first step: cancelling the caller of
    # gather_and_close() cancels the gathered tasks through asyncio itself, see DESIGN.md "observations outside the properties")
    out.append(cell("sinf S3|gac@idle|cancel-the-close|unlock,T1,stop(2)", sc, MON, own_only=True))
    sc = scen(pool(3, "SimpleTaskPool", ecb="plain", ccb="plain"), [[S("S", 3)], [GAC], [["unlock", {"after": [1, 1], "after_done": True}], ["stop", 1], ["stop_all"]]], outcomes=["ret", "exc"])
    out.append(cell("s3 S3|gac(fails)|unlock,stop(1),stop_all", sc, MON))
    # two SimpleTaskPools in one loop whose task ids coincide: a stop on one never touches the other's tasks
    for size in [2, "inf"]:
        sc = scen([pool(size, "SimpleTaskPool", ecb="plain", ccb="plain"), pool(size, "SimpleTaskPool", ecb="plain", ccb="plain")],
                  [[S("S", 2)], [S("T", 2, p=1)], [["stop", 1]]], outcomes=["ret"])
        out.append(cell(f"two simple pools s{size} S2|T2@1|stop(1)@0", sc, MON))
        sc = scen([pool(size, "SimpleTaskPool", ecb="plain", ccb="plain"), pool(size, "SimpleTaskPool", ecb="plain", ccb="plain")],
                  [[S("S", 2)], [S("T", 2, p=1)], [["stop_all", {"p": 1}]]], outcomes=["ret"])
        out.append(cell(f"two simple pools s{size} S2|T2@1|stop_all@1", sc, MON))
    if not q:
        for size in [2, 3]:
            sc = scen(pool(size, "SimpleTaskPool", ecb="plain", ccb="plain"), [[S("S", 3)], [S("T", 2)], [cancel(rid("S", 0))], [["stop", 2]], [["stop", 1]]], outcomes=["ret", "exc"])
            out.append(cell(f"T s{size} S3|T2 cancel0 stop2 stop1", sc, MON))
    return out
