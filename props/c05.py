"""C05  map family: element-wise, ordered, bounded, lazy, work-conserving."""
from .common import *  # noqa: F401,F403

EXPLANATION = (
    "Per cell the complete reachable state graph. Oracle at every boundary/user-code point: live workers of the call <= "
    "num_concurrent; elements pulled <= tasks created + skipped + 1; each worker received its element in the right star "
    "form, in iteration order; at every quiet idle state: elements remain and pool not full => exactly num_concurrent "
    "of the call run; terminal: all elements processed once, raising elements skipped."
)
ASSUMPTIONS = ["bounds: iterable length <= 4, num_concurrent <= 3, <= 2 requests, sizes {1,2,inf}"]
BUDGET = {"quick": 150, "thorough": 900}
MON = ["C05"]


def cells(tier):
    out = []
    q = tier == "quick"
    for stars in [0, 1, 2]:
        for n in ([0, 1, 3] if q else [0, 1, 2, 3, 4]):
            for nc in [1, 2, 3]:
                if nc > max(n, 1) + 1:
                    continue
                for size in [1, 2, "inf"]:
                    if q and stars and (size == 1 or nc == 3):
                        continue
                    for comp, ca in {"": [], "|A2": [[A("A", 2)]]}.items():
                        if q and comp and (stars or n < 3):
                            continue
                        for bad in ([None] if n < 3 else [None, [0], [1], [n - 1]]):
                            if q and bad and (stars == 1 or comp):
                                continue
                            opts = dict(stars=stars)
                            if bad:
                                opts["bad"] = bad
                            da = [[cancel(rid("M", 1))]] if (n >= 3 and not bad) else []
                            sc = scen(pool(size), [[M("M", n, nc, **opts)]] + ca + da, outcomes=["ret"] if comp else ["ret", "exc"])
                            out.append(cell(f"s{size} {'*' * stars}M{n}/{nc}{comp} bad={bad} {'cancelM1' if da else ''}", sc, MON))
    for stars in [0, 1]:
        sc = scen(pool(1), [[M("M", 4, 3, stars=stars)], [["set_size", 3]]], outcomes=["ret"])
        out.append(cell(f"s1->3 {'*' * stars}M4/3 (pool grows during the call)", sc, MON))
        sc = scen(pool(2), [[M("M", 4, 2, stars=stars, bad=[["T", 1]])], [A("A", 1)]], outcomes=["ret"])
        out.append(cell(f"s2 {'*' * stars}M4/2 typebad[1]|A1", sc, MON))
    # callbacks of the call's tasks still in progress while the pool is flushed (both flavours): the call keeps its
    # num_concurrent and finishes its iterable
    for size in [2, "inf"]:
        for nc in [1, 2]:
            for fn, fl in (("flush", FLUSH), ("flush-r", FLUSH_RE)):
                sc = scen(pool(size), [[M("M", 3, nc)], [cancel(rid("M", 0))], [fl]], outcomes=["ret"], ecb="plain", ccb="slow", slow_ids=[0])
                out.append(cell(f"s{size} M3/{nc} cancelM0(slow ccb) {fn}", sc, MON))
            sc = scen(pool(size), [[M("M", 3, nc)], [FLUSH_RE]], outcomes=["ret", "exc"], ecb="slow", ccb="plain", slow_ids=[0])
            out.append(cell(f"s{size} M3/{nc} slow ecb0 flush-r", sc, MON))
    # an attempt to close the pool is cancelled while the first call's tasks sit in their (async) end callbacks; the pool is
    # unlocked and used for a second map (the close is attempted once every task has started: see DESIGN.md,
    # observations outside the properties)
    sc = scen(pool(2), [[M("M", 2, 2)], [["gac", {"when": "quiet_idle"}]], [["cancel_op", 1]],
                        [["unlock", {"after": [1, 1], "after_done": True}], M("N", 2, 2)]],
              outcomes=["ret"], ecb="slow", ccb="plain", slow_ids=[0, 1])
    out.append(cell("s2 M2/2|gac@idle|cancel-the-close|unlock,N2/2 slowecb", sc, MON, own_only=True))
    # a pool that is locked (or closing) after the call was accepted, then grown: the call uses the new places
    for old, new in [(1, 3), (0, 2)]:
        sc = scen(pool(old), [[M("M", 3, 2)], [LOCK, ["set_size", new]]], outcomes=["ret"])
        out.append(cell(f"s{old}->{new} M3/2|lock,grow", sc, MON))
    sc = scen(pool(1), [[M("M", 3, 2)], [GAC], [["set_size", 2]]], outcomes=["ret"])
    out.append(cell("s1->2 M3/2|gac|grow", sc, MON))
    # two pools in one loop, each running a map; a task of one is cancelled (also before its first step)
    for size in [2, "inf"]:
        if not q:
            sc = scen([pool(size), pool(size)], [[M("M", 3, 2)], [M("N", 3, 2, p=1)], [cancel(rid("M", 0))]], outcomes=["ret"])
            out.append(cell(f"T two pools s{size} M3/2|N3/2@1|cancelM0", sc, MON))
        sc = scen([pool(size), pool(size)], [[M("M", 2, 1)], [M("N", 2, 1, p=1, stars=1)], [cancel(rid("N", 0))]], outcomes=["ret"])
        out.append(cell(f"two pools s{size} M2/1|*N2/1@1|cancelN0", sc, MON))
    if not q:
        for size in [1, 2]:
            sc = scen(pool(size), [[M("M", 4, 2)], [M("N", 3, 1, stars=1)], [cancel(rid("N", 0))]], outcomes=["ret", "exc"], ecb="slow", slow_ids=[0])
            out.append(cell(f"T s{size} M4/2|*N3/1 cancelN0 slowecb", sc, MON))
    return out
