"""C02  No task and no capacity is ever lost."""
from .common import *  # noqa: F401,F403

EXPLANATION = (
    "Cells = closed scenarios (pool size x concurrent spawn requests x one disturbing actor x outcome menu x callback "
    "kinds); for each cell the complete reachable state graph of the real pool on the virtual loop is explored. "
    "Oracle at every quiet idle state: num_running == workers in flight; at every terminal state: num_running == 0, "
    "no operation blocked, every created id got exactly one end callback, and a capacity probe (size+1 gated tasks "
    "requested, exactly size must start). Thorough adds the capacity probe as a terminal branch at every quiet idle state."
)
ASSUMPTIONS = [
    "bounds: <= 3 concurrent requests, <= 6 tasks, <= 2 flushes, pool size in {1,2,3}",
]
BUDGET = {"quick": 150, "thorough": 900}
MON = ["C02"]


def cells(tier):
    out = []
    q = tier == "quick"
    light = ["none", "cancel0", "cgroupA", "call", "flush"]
    heavy = ["cancel0+cancel1", "cancel0+flush", "cancel0+flush+flush", "call+flush", "cancel0+cancel1+flush"]
    out += grid(MON, [1, 2], ["A2", "M3/1|A1"], light + heavy, ["plain", "slowccb", "slowecb"], [["ret"], ["ret", "exc"]],
                skip=lambda s, rn, dn, cn, o: (cn != "plain" and len(o) > 1) or (cn != "plain" and dn in ("none", "cgroupA"))
                or (q and rn != "A2" and dn in heavy and (len(o) > 1 or cn == "slowecb")))
    out += grid(MON, [1, 2], ["A2|M3/2"], light + (["cgroupM"] if not q else []), ["plain"], [["ret"]] if q else [["ret", "exc"]])
    out += grid(MON, [1] if q else [1, 2], ["A2|M3/2"], ["cancel0+flush", "call+flush"], ["slowccb"] if q else ["plain", "slowccb", "slowecb"], [["ret"]])
    for size in [1, 2]:
        sc = scen(pool(size, name="np"), [[A("A", 2)], [["cancel", rid("A", 0), {"msg": "m"}]], [["cancel_all", {"msg": "n"}]]], outcomes=["ret"], ecb="amethod", ccb="method")
        out.append(cell(f"s{size} named pool A2 cancel0(msg) call(msg) method-cbs", sc, MON))
        sc = scen([pool(size), pool(1)], [[A("A", 2)], [A("B", 2, p=1)], [cancel(rid("A", 0))], [["cancel_all", {"p": 1}]]], outcomes=["ret"], ecb="plain", ccb="plain")
        out.append(cell(f"two pools s{size}/1 A2|B2@1 cancelA0 call@1", sc, MON))
        sc = scen([pool(size), pool(2)], [[A("A", 2)], [A("B", 2, p=1)], [["cancel", rid("B", 0), {"p": 1}]], [["cancel", rid("A", 1)]]], outcomes=["ret"], ecb="plain", ccb="plain")
        out.append(cell(f"two pools s{size}/2 A2|B2@1 cancelB0@1 cancelA1", sc, MON))
    for size in [2, 3]:
        for fl in (FLUSH, FLUSH_RE):
            sc = scen(pool(size), [[A("A", 3)], [cancel(rid("A", 0))], [fl]], outcomes=["ret", "exc"], ecb="plain", ccb="slow", slow_ids=[0])
            out.append(cell(f"s{size} A3 cancel0 {fl} slowccb0 ret/exc", sc, MON))
    for size in [1, 2]:
        # a raising cancel callback; the caller of a pending flush() being cancelled (wait_for timeout)
        for cbn, cb in {"ccb-raise": dict(ecb="plain", ccb="raise", slow_ids=[0]), "ccb-araise": dict(ecb="coro", ccb="araise", slow_ids=[0, 1])}.items():
            sc = scen(pool(size), [[A("A", 2)], [cancel(rid("A", 0))], [CALL]], outcomes=["ret"], **cb)
            out.append(cell(f"s{size} A2 cancel0 call {cbn}", sc, MON))
        sc = scen(pool(size), [[A("A", 2)], [cancel(rid("A", 0))], [FLUSH], [["cancel_op", 2]]], outcomes=["ret"], ecb="slow", ccb="slow", slow_ids=[0])
        out.append(cell(f"s{size} A2 cancel0 flush flush-caller-cancelled slowcbs", sc, MON))
        sc = scen(pool(size), [[A("A", 2)], [FLUSH], [["cancel_op", 1]]], outcomes=["ret", "exc"], ecb="slow", ccb="plain", slow_ids=[0, 1])
        out.append(cell(f"s{size} A2 flush flush-caller-cancelled slowecb", sc, MON))
    for size in [1, 2]:
        for dn, da in {
            "stop1": [[["stop", 1]]],
            "stopall+flush": [[["stop_all"]], [FLUSH]],
            "cancel0": [[cancel(rid("S", 0))]],
        }.items():
            sc = scen(pool(size, "SimpleTaskPool", ecb="plain", ccb="plain"), [[S("S", 2)], [S("T", 1)]] + da,
                      outcomes=["ret", "exc"])
            out.append(cell(f"simple s{size} S2|T1 {dn}", sc, MON))
    if not q:
        out += grid(MON, [3], ["A2|M3/2", "A3|M2/2", "M4/2"], ["cancel0", "cancelM0", "cgroupM", "call", "call+flush"], ["plain"], [["ret", "exc"]], prefix="T ")
        out += grid(MON, [1, 2], ["A3|M2/2", "A1|M2/1|A1"], ["cancel0+flush+flush", "cancel0+cancel1+flush", "call+flush"], ["slowccb", "slowecb1"], [["ret"]], prefix="T ")
        # capacity probe as a terminal branch at every quiet idle state
        for size in [1, 2]:
            for rn in ("A2", "A2|M3/2", "M3/1|A1"):
                for dn in ("cancel0", "call", "cancel0+flush"):
                    sc = scen(pool(size), REQS[rn] + DISTS[dn] + [[PROBE]], outcomes=["ret", "exc"], ecb="plain", ccb="slow", slow_ids=[0])
                    out.append(cell(f"probe-everywhere s{size} {rn} {dn}", sc, MON))
    # a shrink issued from user code (worker's last act / end callback) while a freed place is in transit to a spawner
    for old, new in [(2, 1), (1, 0), (3, 2)]:
        sc = scen(pool(old), [[A("A", old)], [A("B", 2)], [["set_size", new]]], outcomes=["ret"], ecb="plain", ccb="plain",
                  inline={"actors": [2], "at": ["w_resume", "ecb"]})
        out.append(cell(f"inline s{old}->{new} A{old}|B2 resize@w_resume/ecb", sc, MON + ["C15"]))
    return out
