"""C02  No task and no capacity is ever lost."""
from .common import *  # noqa: F401,F403

EXPLANATION = (
    "Cells = closed scenarios (pool size x concurrent spawn requests x one disturbing actor x outcome menu x callback "
    "kinds); for each cell the complete reachable state graph of the real pool on the virtual loop is explored. "
    "Oracle at every quiet idle state: num_running == workers in flight; at every terminal state: num_running == 0, "
    "no operation blocked, every created id got exactly one end callback, and a capacity probe (size+1 gated tasks "
    "requested, exactly size must start). Thorough adds the capacity probe as a terminal branch at every quiet idle state."
)
ASSUMPTIONS = [
    "bounds: <= 3 concurrent requests, <= 6 tasks, <= 2 flushes, pool size in {1,2,3}",
]
BUDGET = {"quick": 240, "thorough": 2400}
MON = ["C02"]


def requests(tier):
    rs = {
        "A2": [[A("A", 2)]],
        "A2|M3/2": [[A("A", 2)], [M("M", 3, 2)]],
        "M3/1|A1": [[M("M", 3, 1)], [A("A", 1)]],
    }
    if tier == "thorough":
        rs["A3|M2/2"] = [[A("A", 3)], [M("M", 2, 2)]]
        rs["M4/2"] = [[M("M", 4, 2)]]
    return rs


def disturbers(tier):
    ds = {
        "none": [],
        "cancel0": [[cancel(rid("A", 0))]],
        "cancel0+cancel1": [[cancel(rid("A", 0))], [cancel(rid("A", 1))]],
        "cgroupA": [[cgroup("A")]],
        "call": [[CALL]],
        "flush": [[FLUSH]],
        "cancel0+flush": [[cancel(rid("A", 0))], [FLUSH]],
        "cancel0+flush+flush": [[cancel(rid("A", 0))], [FLUSH], [FLUSH]],
        "call+flush": [[CALL], [FLUSH]],
        "cancel0+cancel1+flush": [[cancel(rid("A", 0))], [cancel(rid("A", 1))], [FLUSH]],
    }
    if tier == "thorough":
        ds["cgroupM"] = [[cgroup("M")]]
        ds["cancel0+cgroupA"] = [[cancel(rid("A", 0))], [cgroup("A")]]
    return ds


CBS = {
    "plain": dict(ecb="plain", ccb="plain"),
    "slowccb": dict(ecb="plain", ccb="slow", slow_ids=[0, 1]),
    "slowecb": dict(ecb="slow", ccb="coro", slow_ids=[0]),
}


def cells(tier):
    out = []
    sizes = [1, 2] if tier == "quick" else [1, 2, 3]
    for size in sizes:
        for rn, ra in requests(tier).items():
            for dn, da in disturbers(tier).items():
                if "A1" in rn and "cancel1" in dn:
                    continue
                if dn == "cgroupM" and "M" not in rn:
                    continue
                for cn, cb in CBS.items():
                    outs = [["ret"]]
                    if cn == "plain":
                        outs.append(["ret", "exc"])
                    for o in outs:
                        if tier == "quick" and cn != "plain" and dn in ("none", "cgroupA") :
                            continue
                        sc = scen(pool(size), ra + da, outcomes=o, **cb)
                        out.append(cell(f"s{size} {rn} {dn} {cn} {'/'.join(o)}", sc, MON))
    # SimpleTaskPool
    for size in sizes:
        for dn, da in {
            "stop1": [[["stop", 1]]],
            "stopall+flush": [[["stop_all"]], [FLUSH]],
            "cancel0": [[cancel(0)]],
        }.items():
            sc = scen(pool(size, "SimpleTaskPool", ecb="plain", ccb="plain"), [[S("S", 2)], [S("T", 1)]] + da,
                      outcomes=["ret", "exc"])
            out.append(cell(f"simple s{size} S2|S1 {dn}", sc, MON))
    if tier == "thorough":
        # capacity probe as a terminal branch at every quiet idle state
        for size in [1, 2]:
            for rn, ra in requests("quick").items():
                for dn in ("cancel0", "call", "cancel0+flush"):
                    da = disturbers("quick")[dn]
                    sc = scen(pool(size), ra + da + [[PROBE]], outcomes=["ret", "exc"], ecb="plain", ccb="slow", slow_ids=[0])
                    out.append(cell(f"probe-everywhere s{size} {rn} {dn}", sc, MON))
    return out
