"""C04  apply/start run exactly the requested invocations."""
from .common import *  # noqa: F401,F403

EXPLANATION = (
    "Per cell the complete reachable state graph. Oracle: at every sample point invocations <= num; at each worker start "
    "the positional/keyword arguments are the very objects given to apply()/the pool (identity), the task is in the group "
    "whose name the call returned; terminal: invocations == num minus skipped raising call sites unless the group was "
    "cancelled, get_group_ids(group) == exactly those task ids."
)
ASSUMPTIONS = ["bounds: num <= 3, <= 3 competing requests, sizes {1,2,inf}; individual cancel() only aimed at other groups"]
BUDGET = {"quick": 150, "thorough": 900}
MON = ["C04"]


def cells(tier):
    out = []
    q = tier == "quick"
    shapes = [dict(args=0), dict(args=1, kwargs=0), dict(args=2, kwargs=1), dict(args=None, kwargs=2)]
    for size in [1, 2, "inf"]:
        for num in [0, 1, 2, 3]:
            sh = shapes[num % len(shapes)]
            for dn, da in {
                "none": [],
                "lock": [[LOCK]],
                "lock+unlock": [[LOCK, UNLOCK]],
                "gac": [[GAC]],
                "lock+gac": [[LOCK], [GAC]],
            }.items():
                if size == "inf" and dn not in ("none", "gac"):
                    continue
                sc = scen(pool(size), [[A("A", num, **sh)], [A("B", 1)]] + da, outcomes=["ret"])
                out.append(cell(f"s{size} A{num}{name_of([sh])}|B1 {dn}", sc, MON))
    for size in [1, 2]:
        # unrelated cancellation, own group cancellation, competing map
        sc = scen(pool(size), [[A("A", 3)], [A("B", 2)], [cancel(rid("B", 0))]], outcomes=["ret", "exc"])
        out.append(cell(f"s{size} A3|B2 cancelB0", sc, MON))
        sc = scen(pool(size), [[A("A", 3)], [A("B", 2)], [cgroup("B")], [LOCK]], outcomes=["ret"])
        out.append(cell(f"s{size} A3|B2 cgroupB lock", sc, MON))
        sc = scen(pool(size), [[A("A", 2, args=2)], [M("M", 2, 1)], [GAC]], outcomes=["ret", "exc"])
        out.append(cell(f"s{size} A2|M2/1 gac", sc, MON))
        for k in ([["T", 1]], [["T", 0], 2]):
            sc = scen(pool(size), [[A("A", 3, fault=k)], [A("B", 1)]], outcomes=["ret"])
            out.append(cell(f"s{size} A3 typefault{k}|B1", sc, MON))
        sc = scen(pool(size, "SimpleTaskPool", args=1, kwargs=0, fault=[["T", 0]]), [[S("S", 3)]], outcomes=["ret"])
        out.append(cell(f"simple s{size} S3 typefault[0]", sc, MON))
        for k in ([0], [1], [2], [0, 2]):
            sc = scen(pool(size), [[A("A", 3, fault=k)], [A("B", 1)], [LOCK]], outcomes=["ret"])
            out.append(cell(f"s{size} A3 fault{k}|B1 lock", sc, MON))
    for size in [1, 2]:
        sc = scen(pool(size), [[A("X", size)], [A("A", 2), cgroup("A"), A("B", 3)], [GAC]], outcomes=["ret"])
        out.append(cell(f"s{size} X{size}|A2,cgroupA,B3 (auto name re-used at once)|gac", sc, MON))
    for form in ("view", "set"):
        sc = scen(pool(2), [[A("A", 2, args=1 if form == "set" else 2, kwargs=1, argsform=form)], [A("B", 1)]], outcomes=["ret"])
        out.append(cell(f"s2 A2 args given as a {form} (iterable, not a sequence)|B1", sc, MON))
    for size in [1, 2]:
        sc = scen(pool(size), [[A("A", 2, args=1, kwargs=1, partial=True, name="pg")], [A("B", 1)], [LOCK]], outcomes=["ret"])
        out.append(cell(f"s{size} A2 func=partial(k0 frozen) kwargs k0|B1 lock", sc, MON))
    # SimpleTaskPool.start
    for size in [1, 2, "inf"]:
        for dn, da in {"none": [], "lock": [[LOCK]], "gac": [[GAC]], "stop1": [[["stop", 1]]]}.items():
            if dn == "stop1":
                continue
            sc = scen(pool(size, "SimpleTaskPool", args=2, kwargs=1), [[S("S", 3)], [S("T", 1)]] + da, outcomes=["ret"])
            out.append(cell(f"simple s{size} S3|T1 {dn}", sc, MON))
        sc = scen(pool(size, "SimpleTaskPool", args=1, kwargs=0, fault=[1]), [[S("S", 3)], [LOCK]], outcomes=["ret"])
        out.append(cell(f"simple s{size} S3 fault[1] lock", sc, MON))
    # ended tasks forgotten by flush(), then the (so far unbounded, or larger) pool is given a small size: the next
    # request must still get all its invocations
    for old in ["inf", 3]:
        for new in [1, 2]:
            sc = scen(pool(old), [[A("A", 2)], [FLUSH, ["set_size", new], A("B", 2)]], outcomes=["ret"])
            out.append(cell(f"s{old} A2|flush,size{new},B2", sc, MON))
        sc = scen(pool(old, "SimpleTaskPool"), [[S("S", 2)], [FLUSH, ["set_size", 1], S("T", 2)]], outcomes=["ret"])
        out.append(cell(f"simple s{old} S2|flush,size1,T2", sc, MON))
    # flush() waits on a task parked in its end callback while a task of the same pool is cancelled and parks in its
    # cancel callback beyond the flush: the waiting request still gets all its invocations
    sc = scen(pool(1), [[A("E", 1), A("A", 1), A("B", 2, worker="instant")], [cancel(rid("A", 0))], [FLUSH]], outcomes=["ret"],
              ecb="slow", ccb="slow", slow_ids=[["ecb", 0, 0], ["ccb", 0, 1]])
    out.append(cell("s1 E1,A1,B2 cancelA0 flush slow ecb(E)/ccb(A)", sc, MON))
    sc = scen(pool(2), [[A("X", 2)], [["gac", {"when": "quiet_idle"}]], [["cancel_op", 1]],
                        [["unlock", {"after": [1, 1], "after_done": True}], A("B", 3)]], outcomes=["ret"])
    out.append(cell("s2 X2|gac@idle|cancel-the-close|unlock,B3", sc, MON, own_only=True))
    sc = scen(pool(2, "SimpleTaskPool"), [[S("X", 2)], [["gac", {"when": "quiet_idle"}]], [["cancel_op", 1]],
                                            [["unlock", {"after": [1, 1], "after_done": True}], S("B", 3)]], outcomes=["ret"])
    out.append(cell("simple s2 X2|gac@idle|cancel-the-close|unlock,B3", sc, MON, own_only=True))
    if not q:
        sc = scen(pool(2), [[A("A", 1)], [A("C", 1)], [A("B", 2)], [cancel(rid("C", 0))], [FLUSH]], outcomes=["ret"],
                  ecb="slow", ccb="slow", slow_ids=[["ecb", 0, 0], ["ccb", 0, 1]])
        out.append(cell("T s2 A1|C1|B2 cancelC0 flush slow ecb(A)/ccb(C)", sc, MON))
    sc = scen(pool("inf"), [[A("A", 3)], [FLUSH, ["set_size", 5], ["set_size", 2], A("B", 2)], [LOCK, UNLOCK]], outcomes=["ret"])
    out.append(cell("sinf A3|flush,size5,size2,B2|lock,unlock", sc, MON))
    if not q:
        for size in [1, 2, 3]:
            sc = scen(pool(size), [[A("A", 3, args=2, kwargs=2)], [A("B", 2)], [A("C", 1)], [LOCK], [GAC]], outcomes=["ret", "exc"])
            out.append(cell(f"T s{size} A3|B2|C1 lock gac", sc, MON))
            sc = scen(pool(size), [[A("A", 3)], [M("M", 3, 2)], [cancel(rid("M", 0))], [LOCK, UNLOCK]], outcomes=["ret", "exc"],
                      ecb="slow", slow_ids=[0])
            out.append(cell(f"T s{size} A3|M3/2 cancelM0 lock/unlock slowecb", sc, MON))
    return out
