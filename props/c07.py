"""C07  Group and global cancellation are complete and contained."""
from .common import *  # noqa: F401,F403

EXPLANATION = (
    "Group G (apply or map) next to sibling group H on small pools so that the group cancellation lands, over the "
    "complete state graph, before G's spawner ran, while it waits for pool room or for its own map slot, just after a "
    "slot was handed to it, and after it finished; issued by an actor at a boundary or inline from a worker/callback of "
    "G or H. Oracle: group forgotten at once (get_group_ids raises, name reusable), no G task starts afterwards, G's "
    "iterable is not advanced again, at the next quiet idle every G worker has exited after observing CancelledError, "
    "no H worker observes a cancellation and H's request completes exactly (C04/C05 oracles on H)."
)
ASSUMPTIONS = ["bounds: 2-3 groups, <= 7 tasks; cancellation is never issued re-entrantly from the group's own iterator/call site"]
BUDGET = {"quick": 150, "thorough": 900}
MON = ["C07", "C04", "C05"]
QUICK_MAX_STATES = 30000  # three monitors per cell: the quick tier leaves the larger cells to the thorough tier


def cells(tier):
    out = []
    q = tier == "quick"
    G = {"A3": [A("G", 3, name="gname")], "M4/2": [M("G", 4, 2, name="gname")], "M3/1": [M("G", 3, 1, name="gname")]}
    H = {"A2": [A("H", 2)], "M3/2": [M("H", 3, 2)]}
    for size in [1, 2]:
        for gn, g in G.items():
            for hn, h in H.items():
                if q and hn == "M3/2" and (gn == "M3/1" or size == 2):
                    continue
                for on, o in {"cgroup": cgroup("G"), "call": CALL}.items():
                    acts = [g, h, [o, A("G2", 1, name="gname", reuse=True, needs_cancelled="G")]]
                    sc = scen(pool(size), acts, outcomes=["ret"], ecb="plain", ccb="plain")
                    out.append(cell(f"s{size} G={gn} H={hn} {on}+reuse", sc, MON))
        # issued from user code
        for at in (["w_start"], ["ecb"], ["ccb"], ["w_resume"]):
            for gn in (["A3", "M4/2"] if not q else ["M4/2"]):
                sc = scen(pool(size), [G[gn], H["A2"], [cgroup("G")], [cancel(rid("G", 0))]], outcomes=["ret"],
                          ecb="plain", ccb="plain", inline={"actors": [2], "at": at})
                out.append(cell(f"inline s{size} G={gn} H=A2 cgroup@{'/'.join(at)} cancelG0", sc, MON))
        for on, o in {"cgroup(msg)": ["cancel_group", "G", {"msg": "bye"}], "call(msg)": ["cancel_all", {"msg": "bye"}]}.items():
            sc = scen(pool(size), [G["A3"], H["A2"], [o]], outcomes=["ret"], ecb="plain", ccb="plain", inline={"actors": [2], "at": ["w_start", "w_resume"]})
            out.append(cell(f"inline s{size} G=A3 H=A2 {on}@w_start/w_resume", sc, MON))
        sc = scen(pool(size), [G["M3/1"], H["A2"], [["cancel_group", "?nope"]], [cgroup("G")]], outcomes=["ret", "exc"])
        out.append(cell(f"s{size} G=M3/1 H=A2 unknown-name cgroup", sc, MON))
    for size in [1, 2]:
        for gn in ("A3", "M4/2"):
            sc = scen(pool(size), [G[gn], H["A2"], [FLUSH, cgroup("G")]], outcomes=["ret"], ecb="plain", ccb="plain")
            out.append(cell(f"s{size} G={gn} H=A2 flush,cgroup", sc, MON))
        sc = scen(pool(size), [G["M3/1"], H["A2"], [FLUSH], [CALL]], outcomes=["ret"])
        out.append(cell(f"s{size} G=M3/1 H=A2 flush call", sc, MON))
    for size in [1, 2]:
        sc = scen(pool(size), [G["A3"], H["A2"], [["cancel_group", "G", {"msg": "stop it"}]], [["cancel", rid("H", 0), {"msg": "you too"}]]], outcomes=["ret"], ecb="plain", ccb="plain")
        out.append(cell(f"s{size} G=A3 H=A2 cgroup(msg) cancelH0(msg)", sc, MON))
        sc = scen(pool(size), [G["M3/1"], H["A2"], [["cancel_all", {"msg": "all"}]]], outcomes=["ret"])
        out.append(cell(f"s{size} G=M3/1 H=A2 call(msg)", sc, MON))
    for size in [1, 2]:
        # a worker that absorbed an individual cancellation earlier is still reached by the group cancellation
        sc = scen(pool(size), [[A("G", 2, name="gname", worker="absorb")], H["A2"], [cancel(rid("G", 0))], [cgroup("G")]], outcomes=["ret"], ecb="plain", ccb="plain")
        out.append(cell(f"s{size} G=A2 absorb H=A2 cancelG0 cgroup", sc, MON))
    # the pool is shrunk below its occupancy before the group cancellation and grown again after it (H: a map waiting on
    # its own slot while its task sits in a slow end callback; G: a spawner that was just handed the freed room)
    for seq in [(0, 1), (1, 2), (0, "inf")]:
        sc = scen(pool(2), [[A("X", 1), M("H", 2, 1), A("G", 1, name="gname")],
                            [["set_size", seq[0]], cgroup("G"), ["set_size", seq[1]]]],
                  outcomes=["ret"], ecb="slow", ccb="plain", slow_ids=[0])
        out.append(cell(f"s2 X1,H=M2/1,G=A1 size{seq[0]},cgroupG,size{seq[1]} slowecb(X) (resized)", sc, MON))
    sc = scen(pool(2, "SimpleTaskPool", worker="absorb", ecb="plain", ccb="plain"), [[S("G", 2)], [["stop", 1]], [CALL]], outcomes=["ret"])
    out.append(cell("simple s2 G=S2 absorb stop1 call", sc, MON))
    # an unknown name (here: the name a later start() will be given) raises and changes nothing - also not later
    for nm in ("start-group-1", "start-group-2"):
        sc = scen(pool(2, "SimpleTaskPool", ecb="plain", ccb="plain"), [[S("G", 1), ["cancel_group", "?" + nm], S("H", 2), S("K", 1)], [["stop", 1]]], outcomes=["ret"])
        out.append(cell(f"simple s2 G=S1,cgroup(unknown {nm}),H=S2,K=S1|stop1", sc, MON))
    sc = scen(pool(2, "SimpleTaskPool", ecb="plain", ccb="plain"), [[S("G", 3)], [S("H", 2)], [cgroup("G")]], outcomes=["ret"])
    out.append(cell("simple s2 G=S3 H=S2 cgroup", sc, MON))
    if not q:
        for size in [1, 2, 3]:
            sc = scen(pool(size), [G["M4/2"], H["M3/2"], [A("K", 2)], [cgroup("G")], [cgroup("K")]], outcomes=["ret", "exc"], ecb="plain", ccb="plain")
            out.append(cell(f"T s{size} G=M4/2 H=M3/2 K=A2 cgroupG cgroupK", sc, MON))
            sc = scen(pool(size), [G["A3"], H["M3/2"], [CALL], [cancel(rid("H", 0))]], outcomes=["ret"], ecb="slow", ccb="plain", slow_ids=[0, 1],
                      inline={"actors": [2], "at": ["ecb", "w_start", "ccb"]})
            out.append(cell(f"T inline s{size} G=A3 H=M3/2 call@any cancelH0 slowecb", sc, MON))
    return out
