"""C11  Task ids are dense, ordered, never reused, visible in task names."""
from .common import *  # noqa: F401,F403

EXPLANATION = (
    "Histories of spawns, endings, flushes and cancellations with one or two pools (either class, unnamed) on one loop; "
    "complete state graph. Oracle at every boundary/user-code point: the ids that became visible since the previous "
    "point are exactly the next integers (dense, from 0, per pool, never reused after flush), tasks start in id order, "
    "the worker's task name is '<pool>_Task-<id>', the id passed to a callback is the id in the running task's name, "
    "unnamed pools have distinct names."
)
ASSUMPTIONS = ["bounds: <= 2 pools, <= 6 tasks"]
BUDGET = {"quick": 120, "thorough": 900}
MON = ["C11"]


def cells(tier):
    out = []
    q = tier == "quick"
    for size in [1, 2]:
        sc = scen(pool(size), [[A("A", 2)], [M("M", 2, 1)], [cancel(rid("A", 0))], [FLUSH, A("B", 1)]], outcomes=["ret"] if q else ["ret", "exc"], ecb="plain", ccb="coro")
        out.append(cell(f"s{size} A2|M2/1|cancel0|flush,B1", sc, MON))
        sc = scen([pool(size), pool(2)], [[A("A", 2)], [A("B", 1 if q else 2, p=1)], [["flush", {"p": 1}], M("M", 1, 1, p=1)], [cgroup("A")]],
                  outcomes=["ret"], ecb="plain", ccb="plain")
        out.append(cell(f"two pools s{size}/2 A2|B2@1|flush@1,M1@1|cgroupA", sc, MON))
        sc = scen([pool(size, "SimpleTaskPool", ecb="coro", ccb="plain"), pool(1)], [[S("S", 2)], [A("B", 2, p=1)], [["stop", 1], S("T", 1)]],
                  outcomes=["ret"], ecb="plain")
        out.append(cell(f"simple+task s{size}/1 S2|B2@1|stop1,T1", sc, MON))
    for size in [1, 2]:
        sc = scen(pool(size), [[A("A", 3)], [cgroup("A"), A("B", 2)], [M("M", 2, 1)]], outcomes=["ret"], ecb="plain", ccb="plain")
        out.append(cell(f"s{size} A3|cgroupA,B2|M2/1", sc, MON))
        sc = scen(pool(size), [[M("M", 3, 2)], [A("A", 2)], [CALL, A("B", 2)]], outcomes=["ret"])
        out.append(cell(f"s{size} M3/2|A2|call,B2", sc, MON))
    for size in [1, 2]:
        sc = scen(pool(size), [[A("A", 2)], [cancel(rid("A", 1)), A("B", 1)], [cancel(rid("A", 0))]], outcomes=["ret"], ecb="plain", ccb="plain")
        out.append(cell(f"s{size} A2|cancelA1,B1|cancelA0 (early cancels)", sc, MON))
    for size, nc in [(1, 1), (2, 2), ("inf", 2)]:
        # end/cancel callbacks that suspend while further tasks of the same call end
        sc = scen(pool(size), [[M("M", 3, nc)]], outcomes=["ret"], ecb="slow", ccb="plain", slow_ids=[0, 1])
        out.append(cell(f"s{size} M3/{nc} slow ecb 0,1", sc, MON))
        sc = scen(pool(size), [[A("A", 3)], [cancel(rid("A", 1))]], outcomes=["ret"], ecb="slow", ccb="slow", slow_ids=[0, 1])
        out.append(cell(f"s{size} A3 cancelA1 slow ecb/ccb 0,1", sc, MON))
    sc = scen(pool(2, "SimpleTaskPool", ecb="plain", ccb="plain"), [[S("S", 2)], [["stop", 1], S("T", 1)]], outcomes=["ret"])
    out.append(cell("simple s2 S2|stop1,T1 (early stop)", sc, MON))
    # a shrink issued from user code while a freed place is in transit, spawners of two groups waiting
    sc = scen(pool(2), [[A("A", 2)], [A("B", 2)], [A("C", 1)], [["set_size", 1]]], outcomes=["ret"], ecb="plain", ccb="plain",
              inline={"actors": [3], "at": ["ecb", "w_resume"]})
    out.append(cell("inline s2->1 A2|B2|C1 resize@ecb/w_resume (two groups waiting)", sc, MON))
    # two pools given the same explicit name (legal): numbered independently
    sc = scen([pool(2, name="same"), pool(2, name="same")], [[A("A", 2)], [A("B", 2, p=1)]], outcomes=["ret"], ecb="plain", ccb="plain")
    out.append(cell("two pools named alike A2|B2@1", sc, MON, own_only=True))
    sc = scen([pool(2, "SimpleTaskPool", name="same", ecb="plain", ccb="plain"), pool(2, "SimpleTaskPool", name="same", ecb="plain", ccb="plain")],
              [[S("S", 2)], [S("T", 1, p=1), S("U", 1, p=1)]], outcomes=["ret"])
    out.append(cell("two simple pools named alike S2|T1,U1@1", sc, MON, own_only=True))
    sc = scen([pool(2, name="same")], [[A("A", 2)], [["new_pool", {"name": "same", "size": 2}, {}], A("B", 2, p=1)]], outcomes=["ret"], ecb="plain", ccb="plain")
    out.append(cell("pool named x with tasks; later a second pool named x", sc, MON, own_only=True))
    sc = scen([pool(1), pool(2)], [[A("A", 1), ["gac"]], [A("B", 1, p=1)], [["new_pool"], A("C", 1, p=2)]], outcomes=["ret"])
    out.append(cell("pools a,b; close a; new pool c; tasks in b and c", sc, MON))
    if not q:
        for size in [1, 2, "inf"]:
            sc = scen([pool(size), pool(size)], [[A("A", 2)], [M("M", 3, 2, p=1)], [cancel(rid("A", 1))], [FLUSH, A("C", 1)], [["flush", {"p": 1}]]],
                      outcomes=["ret", "exc"], ecb="plain", ccb="plain")
            out.append(cell(f"T two pools s{size} A2|M3/2@1|cancelA1|flush,C1|flush@1", sc, MON))
    return out
