"""C17  A command does exactly what the method call would do.

Reference model = a twin pool driven by direct method calls with the converted arguments.
Explicit-state BFS over command sequences (dedup on the twin's observation vector); in every
reached state every test command (every method/property x every subset of its options x values
from per-parameter domains) is executed on the served pool and on the twin; replies and
observation vectors must agree.
"""
import itertools
import multiprocessing as mp
import os
import time

from aiomc.vloop import fresh_loop, release_loop
from asyncio_taskpool import exceptions as X

from . import verif_workers as vw
from .memstream import Capture, Session, make_pool, shutdown

VW = "ctl.verif_workers."


# --------------------------------------------------------------------------------------
# command forms: (command line, direct call)
class Form:
    __slots__ = ("line", "call", "waits")

    def __init__(self, line, call, waits=False):
        self.line = line
        self.call = call
        self.waits = waits

    def __repr__(self):
        return self.line


class Late:
    """An argument value that the direct call resolves when it is made (the object a dotted path names NOW)."""

    def __init__(self, *path):
        self.path = path

    def get(self):
        o = vw
        for a in self.path:
            o = getattr(o, a)
        return o


def _res(x):
    return x.get() if isinstance(x, Late) else x


def opt_subsets(options):
    """options: list of (flag, [ (token, value), ... ]) -> all subsets x all value choices."""
    for r in range(len(options) + 1):
        for sub in itertools.combinations(options, r):
            for vals in itertools.product(*[o[2] for o in sub]):
                toks = []
                kw = {}
                for (flag, pname, _), (tok, val) in zip(sub, vals):
                    if tok is not None and tok.startswith("="):
                        toks.append(flag + tok)  # the --option=value spelling
                    else:
                        toks.append(flag)
                        if tok is not None:
                            toks.append(tok)
                    kw[pname] = val
                yield toks, kw


FUNCS = [(VW + "work", vw.work), (VW + "notcoro", vw.notcoro)]
ECB = ("--end-callback", "end_callback", [(VW + "ecb", vw.ecb), ("=" + VW + "ecb", vw.ecb)])
CCB = ("--cancel-callback", "cancel_callback", [(VW + "accb", vw.accb)])
GROUP = ("--group-name", "group_name", [("g1", "g1"), ("g2", "g2"), ("7", "7"), ("=g_x", "g_x")])
MSG = ("--msg", "msg", [("m1", "m1"), ("3.0", "3.0"), ("None", "None"), ("=m_1-x", "m_1-x"), ("m_2", "m_2")])
RE = ("--return-exceptions", "return_exceptions", [(None, True)])


def method_form(name, positional, options):
    """positional: list of [(token(s), value)] choices per positional parameter."""
    cmd = name.replace("_", "-")
    out = []
    for pos in itertools.product(*positional):
        ptoks = []
        pvals = []
        for tok, val in pos:
            ptoks += tok if isinstance(tok, list) else [tok]
            pvals.append(val)
        for otoks, kw in opt_subsets(options):
            line = " ".join([cmd] + ptoks + otoks)
            out.append((line, name, tuple(pvals), dict(kw)))
            if ptoks and len(kw) == 1:
                # the same request with the option written before the positional arguments (argparse's usage order)
                out.append((" ".join([cmd] + otoks + ptoks), name, tuple(pvals), dict(kw)))
    return out


def forms_for(cls_name, full=True):
    simple = "Simple" in cls_name
    F = []

    def add(name, positional=(), options=(), star=False, waits=False):
        for line, nm, pvals, kw in method_form(name, list(positional), list(options)):
            if star:
                def call(pool, nm=nm, pvals=pvals, kw=kw):
                    return getattr(pool, nm)(*pvals[0], **{k: _res(v) for k, v in kw.items()})
            else:
                def call(pool, nm=nm, pvals=pvals, kw=kw):
                    return getattr(pool, nm)(*[_res(v) for v in pvals], **{k: _res(v) for k, v in kw.items()})
            F.append(Form(line, call, waits))

    def prop(name, values=()):
        cmd = name.replace("_", "-")

        def getter(pool, name=name):
            return getattr(pool, name)

        F.append(Form(cmd, getter))
        for tok, val in values:
            def setter(pool, name=name, val=val):
                setattr(pool, name, val)
            F.append(Form(f"{cmd} {tok}", setter))

    ids = [([], ()), (["0"], (0,)), (["1"], (1,)), (["0", "1"], (0, 1)), (["1", "0", "1"], (1, 0, 1)), (["7"], (7,))]
    add("cancel", [ids], [MSG], star=True)
    add("cancel_all", [], [MSG])
    add("cancel_group", [[("g1", "g1"), ("nope", "nope")]], [MSG])
    add("flush", [], [RE], waits=True)
    add("gather_and_close", [], [RE], waits=True)
    names = [([], ()), (["g1"], ("g1",)), (["g1", "g2"], ("g1", "g2")), (["nope"], ("nope",)), (["7"], ("7",))]
    add("get_group_ids", [names], [], star=True)
    add("lock")
    add("unlock")
    add("until_closed", waits=True)
    for p in ("is_full", "is_locked", "num_cancelled", "num_ended", "num_running"):
        prop(p)
    prop("pool_size", [("0", 0), ("1", 1), ("3", 3), ("-1", -1)])
    if cls_name == "ExtTaskPool":
        # members a subclass adds: plain/coroutine/static/class methods, read-only and read/write properties
        F.clear()
        add("extra_method", [], [("--count", "count", [("0", 0), ("5", 5)])])
        add("extra_coro_method", [[("abc", "abc"), ("x", "x")]])
        add("build_info", [], [("--verbose", "verbose", [(None, True)])])
        add("describe_class", [], [("--short", "short", [(None, True)])])
        add("undocumented", [], [("--prefix", "prefix", [("p", "p")])])
        add("with_h_option", [[("3", 3)]], [("--hint", "hint", [("hh", "hh")]), ("--verbose", "verbose", [(None, True)])])
        prop("extra_readonly")
        prop("undocumented_prop")
        prop("extra_value", [("0", 0), ("4", 4)])
        prop("num_running")
        add("lock")
        return F
    if simple:
        prop("func_name")
        add("start", [[("0", 0), ("1", 1), ("2", 2)]])
        add("stop", [[("0", 0), ("1", 1), ("5", 5), ("-1", -1)]])
        add("stop_all")
    else:
        args = ("--args", "args", [("()", ()), ("(1,)", (1,)), ("(1,'a')", (1, "a"))])
        kwargs = ("--kwargs", "kwargs", [("{}", {}), ("{'k':1}", {"k": 1}), ("={'k_2':'a_b'}", {"k_2": "a_b"})])
        num = ("--num", "num", [("0", 0), ("2", 2)])
        nc = ("--num-concurrent", "num_concurrent", [("2", 2), ("0", 0)])
        fn = [(t, v) for t, v in FUNCS]
        add("apply", [[(VW + "boom", vw.boom)]], [args])
        # a callback named on the command line that raises: its exception is the task's, as with the direct call
        ecbr = ("--end-callback", "end_callback", [(VW + "ecb_raise", vw.ecb_raise)])
        add("apply", [[(VW + "boom", vw.boom), (VW + "work", vw.work)]], [ecbr])
        # functions and callbacks named by a dotted path through an object: bound methods, a classmethod
        ecbh = ("--end-callback", "end_callback", [(VW + "handler.on_end", Late("handler", "on_end")), (VW + "Handler.cls_on_end", vw.Handler.cls_on_end)])
        ccbh = ("--cancel-callback", "cancel_callback", [(VW + "handler.on_cancel", Late("handler", "on_cancel"))])
        add("apply", [[(VW + "handler.work", Late("handler", "work")), (VW + "boom", vw.boom)]], [ecbh, ccbh])
        if full:
            add("apply", [fn], [args, kwargs, num, GROUP, ECB, CCB])
            add("map", [fn, [("[1,2,3]", [1, 2, 3]), ("[]", []), ("(4,)", (4,))]], [nc, GROUP, ECB, CCB])
            add("starmap", [fn, [("[(1,2),(3,4)]", [(1, 2), (3, 4)]), ("[()]", [()])]], [nc, GROUP, ECB, CCB])
            add("doublestarmap", [fn, [("[{'a':1},{'b':2}]", [{"a": 1}, {"b": 2}]), ("[{}]", [{}])]], [nc, GROUP, ECB, CCB])
        else:
            add("apply", [fn[:1]], [num, GROUP])
            add("map", [fn[:1], [("[1,2,3]", [1, 2, 3])]], [nc, GROUP])
    return F


def history_alphabet(cls_name):
    """Reduced alphabet that builds the states in which all test commands are tried."""
    if cls_name == "ExtTaskPool":
        allf = {f.line: f for f in forms_for(cls_name)}
        return [allf["extra-value 4"], allf["lock"]]
    simple = "Simple" in cls_name
    allf = {f.line: f for f in forms_for(cls_name)}
    if simple:
        lines = ["start 2", "stop 1", "lock", "pool-size 1", "gather-and-close", "cancel 0", "flush"]
    else:
        lines = [
            f"apply {VW}work --num 2 --group-name g1",
            f"map {VW}work [1,2,3] --num-concurrent 2 --group-name g2",
            "cancel 0", "cancel-group g1", "lock", "pool-size 1", "flush", "gather-and-close",
            f"apply {VW}boom --args (1,)",
            f"apply {VW}boom --end-callback {VW}ecb_raise",
            f"apply {VW}handler.work --end-callback {VW}handler.on_end --cancel-callback {VW}handler.on_cancel",
            f"apply {VW}work --group-name 7",
        ]
    return [allf[ln] for ln in lines]


# --------------------------------------------------------------------------------------
def obs(pool, rec):
    groups = {}
    for g in ("g1", "g2", "7", "None", "apply-work-group-0", "map-work-group-0", "start-group-0", "start-group-1"):
        try:
            groups[g] = tuple(sorted(pool.get_group_ids(g)))
        except X.InvalidGroupName:
            groups[g] = None
    return (pool.num_running, pool.num_cancelled, pool.num_ended, pool.is_locked, pool.is_full, pool.pool_size,
            tuple(sorted(groups.items(), key=lambda kv: kv[0])), rec.obs())


def settle(loop, rec, got_reply, waits):
    loop.run_idle()
    if waits and not got_reply():
        # the method itself waits: let the work finish, then it must answer
        for _ in range(50):
            pend = [g for g in rec.gates if not g.done()]
            if not pend:
                break
            for g in pend:
                g.set_result(None)
            loop.run_idle()
            if got_reply():
                break


def run_served(cls_name, size, seq, cap):
    loop = fresh_loop()
    rec = vw.Recorder(loop)
    vw.ACTIVE = rec
    pool = make_pool(cls_name, size)
    vw.handler = vw.Handler()
    replies = []
    trace = []
    with cap.active():
        # another client of the same server, connected earlier, keeps sending lines the parser rejects/explains
        from .memstream import make_server

        srv = make_server(pool)
        noise = Session(loop, pool, 80, name="noise", srv=srv)
        loop.run_idle()
        noise.take()
        s = Session(loop, pool, 80, srv=srv)
        loop.run_idle()
        s.take()
        for k, f in enumerate(seq):
            if k and k == len(seq) - 1:
                vw.handler = vw.Handler()  # the application replaced the object the dotted path names
            noise.send(("pool-size abc", "nope", "cancel -h")[k % 3])
            loop.run_idle()
            noise.take()
            s.send(f.line)
            settle(loop, rec, lambda: bool(s.writer.writes), f.waits)
            out = [b.decode() for b in s.take()]
            replies.append(out)
            trace.append(obs(pool, rec))
    died = s.died()
    shutdown(loop)
    return replies, trace, died


def run_twin(cls_name, size, seq):
    import asyncio

    loop = fresh_loop()
    rec = vw.Recorder(loop)
    vw.ACTIVE = rec
    pool = make_pool(cls_name, size)
    vw.handler = vw.Handler()
    replies = []
    trace = []
    for k_, f in enumerate(seq):
        if k_ and k_ == len(seq) - 1:
            vw.handler = vw.Handler()
        box = []

        async def drive(f=f):
            try:
                r = f.call(pool)
                if asyncio.iscoroutine(r):
                    r = await r
            except Exception as e:  # the reference reply is the str() of the exception
                r = e
            box.append("ok" if r is None else str(r))

        loop.create_task(drive(), name="twin-driver")
        settle(loop, rec, lambda: bool(box), f.waits)
        replies.append([b + "\n" for b in box])
        trace.append(obs(pool, rec))
    shutdown(loop)
    return replies, trace


def compare(cls_name, size, seq, cap):
    """Returns None or a violation dict for the LAST command of seq."""
    sr, st, died = run_served(cls_name, size, seq, cap)
    tr, tt = run_twin(cls_name, size, seq)
    lines = [f.line for f in seq]
    if died:
        return {"key": "session died", "cls": cls_name, "size": size, "lines": lines, "how": died}
    for k in range(len(seq)):
        if sr[k] != tr[k]:
            return {"key": "reply differs from the method call's result", "cls": cls_name, "size": size, "lines": lines,
                    "at": k, "served": sr[k], "reference": tr[k]}
        if st[k] != tt[k]:
            return {"key": "effect differs from the method call's effect", "cls": cls_name, "size": size, "lines": lines,
                    "at": k, "served": repr(st[k]), "reference": repr(tt[k])}
    return None


def explore_state(args):
    cls_name, size, hist_lines = args
    cap = Capture()
    allf = {f.line: f for f in forms_for(cls_name)}
    hist = [allf[ln] for ln in hist_lines]
    viols = []
    n = 0
    for f in forms_for(cls_name):
        v = compare(cls_name, size, hist + [f], cap)
        n += 1
        if v:
            viols.append(v)
    if cap.text():
        viols.append({"key": "server printed to stdout/stderr", "text": cap.text()[:300]})
    return n, viols


def bfs_states(cls_name, size, depth):
    """BFS over the reduced alphabet on the twin; dedup on the twin's observation vector."""
    alpha = history_alphabet(cls_name)
    seen = {}
    frontier = [[]]
    states = [[]]
    tr, tt = run_twin(cls_name, size, [])
    transitions = 0
    for d in range(depth):
        nxt = []
        for h in frontier:
            for f in alpha:
                seq = h + [f]
                _, tt = run_twin(cls_name, size, seq)
                transitions += 1
                key = tt[-1]
                if key in seen:
                    continue
                seen[key] = [x.line for x in seq]
                nxt.append(seq)
                states.append(seq)
        frontier = nxt
    return [[f.line for f in s] for s in states], transitions


def run(tier, seed):
    t0 = time.time()
    depth = 1 if tier == "quick" else 2
    work = []
    bfs_trans = 0
    for cls_name in ("TaskPool", "SimpleTaskPool", "ExtTaskPool"):
        for size in ([2] if tier == "quick" else [1, 3]):
            states, tr = bfs_states(cls_name, size, depth)
            bfs_trans += tr
            for h in states:
                work.append((cls_name, size, h))
    viols = []
    n = 0
    ctx = mp.get_context("fork")
    with ctx.Pool(min(16, os.cpu_count() or 1)) as pool:
        for k, vs in pool.imap_unordered(explore_state, work, chunksize=1):
            n += k
            viols += vs
    nforms = {c: len(forms_for(c)) for c in ("TaskPool", "SimpleTaskPool", "ExtTaskPool")}
    return {
        "violations": viols,
        "states": len(work),
        "transitions": n + bfs_trans,
        "traces": n,
        "samples": [{"history": work[-1][2], "test_command": forms_for(work[-1][0])[5].line, "class": work[-1][0]}],
        "coverage": {"command_forms_per_class": nforms, "bfs_depth": depth, "history_states": len(work)},
        "rule": "BFS over a reduced command alphabet (dedup on the twin pool's observation vector) builds the history "
                "states; in each state every command form (method/property x every subset of its options x values from "
                "per-parameter domains) is sent to a real session and, as a direct call with the converted arguments, to "
                "a twin pool; reply text and observation vectors (counters, flags, size, group ids, worker invocation "
                "records with args/kwargs, callback records) must be equal after every command of the sequence",
        "assumptions": ["bounds: history depth <= %d, value domains of 2-4 values per parameter" % depth],
        "wall": time.time() - t0,
    }


def replay(v):
    cap = Capture()
    allf = {f.line: f for f in forms_for(v["cls"])}
    seq = [allf[ln] for ln in v["lines"]]
    return compare(v["cls"], v["size"], seq, cap)
