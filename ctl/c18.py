"""C18  A session survives any input and answers each line once."""
import itertools
import multiprocessing as mp
import os
import time

from aiomc.vloop import fresh_loop
from asyncio_taskpool import SimpleTaskPool, TaskPool

from . import verif_workers as vw
from .memstream import Capture, Session, shutdown

VW = "ctl.verif_workers."
COMMANDS = [
    "apply", "map", "starmap", "doublestarmap", "cancel", "cancel-all", "cancel-group", "flush", "gather-and-close",
    "get-group-ids", "is-full", "is-locked", "lock", "unlock", "num-running", "num-cancelled", "num-ended",
    "pool-size", "until-closed",
]
SIMPLE_COMMANDS = [c for c in COMMANDS if c not in ("apply", "map", "starmap", "doublestarmap")] + ["start", "stop", "stop-all", "func-name"]
VALUES = [
    "0", "1", "-1", "x", VW + "work", VW + "notcoro", "zzz.qqq", "os.getcwd", "[1,2]", "[1,", "(1,)", "{'a':1}",
    "-h", "--help", "-n", "--num", "-g", "grp", "--", "-x", "'", '"', "éß", "-m", "-r", "--group-name", "--args", "1e3",
    "__import__('os')", "stop", "_start_task", "-start-task", "()", "None",
]


def pool_obs(pool, rec):
    return (pool.num_running, pool.num_cancelled, pool.num_ended, pool.is_locked, pool.is_full, pool.pool_size, rec.obs())


def is_error_reply(txt):
    return "usage:" in txt or "error:" in txt or txt.startswith("argument") or "invalid" in txt


def check_line(line):
    """One fresh session, one line; returns list of violations.

    A line prefixed with '!failed! ' is sent to a session whose pool already holds a task that ended with an
    exception (so that flush / gather-and-close have something to raise)."""
    out = []
    cap = Capture()
    loop = fresh_loop()
    rec = vw.Recorder(loop)
    vw.ACTIVE = rec
    tags = ()
    full_line = line
    if line.startswith("!") and "! " in line:
        # pool state the line is sent in: failed (holds a task that raised), simple (SimpleTaskPool), locked, closed
        head, line = line[1:].split("! ", 1)
        tags = tuple(head.split(","))
    pool = SimpleTaskPool(vw.work, pool_size=3) if "simple" in tags else TaskPool(pool_size=3)
    if "failed" in tags:
        pool.apply(vw.boom, args=(1,))
        loop.run_idle()
    if "locked" in tags or "closed" in tags:
        pool.lock()
    if "closed" in tags:
        loop.create_task(pool.gather_and_close())
        loop.run_idle()
    with cap.active():
        s = Session(loop, pool, 80)
        loop.run_idle()
    s.take()
    before = pool_obs(pool, rec)
    try:
        with cap.active():
            s.send(line)
            loop.run_idle()
    except BaseException as e:  # SystemExit included
        shutdown(loop)
        return [{"key": "exception escaped from the session", "line": full_line, "exc": repr(e)}]
    writes = [b.decode() for b in s.take()]
    waiting = line.strip() == "until-closed" and "closed" not in tags
    if s.died():
        out.append({"key": "session ended", "line": full_line, "how": s.died()})
    elif waiting:
        if writes:
            out.append({"key": "until-closed answered before the pool was closed", "line": full_line, "reply": writes})
        pool.lock()
        t = loop.create_task(pool.gather_and_close())
        with cap.active():
            loop.run_idle()
        writes = [b.decode() for b in s.take()]
        if writes != ["True\n"]:
            out.append({"key": "until-closed not answered exactly once when the pool closed", "line": full_line, "reply": writes})
    else:
        if len(writes) != 1:
            out.append({"key": "not exactly one reply for a line", "line": full_line, "n": len(writes), "reply": writes[:3]})
        else:
            txt = writes[0]
            first = line.split(" ")[0]
            known = COMMANDS if "simple" not in tags else SIMPLE_COMMANDS
            if is_error_reply(txt) or first not in known:
                if pool_obs(pool, rec) != before:
                    out.append({"key": "malformed line / help request altered the pool", "line": full_line, "reply": txt[:200]})
                if first not in known and not is_error_reply(txt):
                    out.append({"key": "unknown command not answered with a message", "line": full_line, "reply": txt[:200]})
    if not s.died() and not line.startswith("gather-and-close"):
        with cap.active():
            s.send("num-running")
            loop.run_idle()
        o2 = [b.decode() for b in s.take()]
        if len(o2) != 1 or not o2[0].strip().isdigit():
            out.append({"key": "session not usable after the line", "line": full_line, "followup": o2})
    if cap.text():
        out.append({"key": "server printed to stdout/stderr", "line": full_line, "text": cap.text()[:200]})
    shutdown(loop)
    return out


def check_pair(pair):
    """(b) reply k contains only the output of command k: second reply == reply in a fresh session."""
    from .memworld import reference_reply

    l1, l2 = pair
    loop = fresh_loop()
    vw.ACTIVE = vw.Recorder(loop)
    pool = TaskPool(pool_size=2)
    s = Session(loop, pool, 80)
    loop.run_idle()
    s.take()
    s.send(l1)
    loop.run_idle()
    r1 = s.take()
    s.send(l2)
    loop.run_idle()
    r2 = s.take()
    shutdown(loop)
    out = []
    if r1 != reference_reply(l1):
        out.append({"key": "reply differs from single-session reference", "lines": [l1], "reply": repr(r1)[:200]})
    if r2 != reference_reply(l2):
        out.append({"key": "second reply contains more/less than its own command's output", "lines": [l1, l2],
                    "reply": repr(r2)[:300], "reference": repr(reference_reply(l2))[:300]})
    return out


EFFECTFUL = ["pool-size 7", "lock", "unlock", "apply " + VW + "work", "apply " + VW + "work --num 2", "cancel 0", "cancel-all",
             "map " + VW + "work [1,2]", "flush", "is-locked"]


def check_triple(pair):
    """a line with an effect, then the same state-neutral line twice: the second copy is answered like the first and
    alters nothing (nothing of an earlier command is replayed)."""
    a, b = pair
    loop = fresh_loop()
    rec = vw.Recorder(loop)
    vw.ACTIVE = rec
    pool = TaskPool(pool_size=2)
    pool.apply(vw.work, num=1)
    loop.run_idle()
    s = Session(loop, pool, 80)
    loop.run_idle()
    s.take()
    out = []
    replies = []
    obs = []
    for ln in (a, b, b):
        s.send(ln)
        loop.run_idle()
        replies.append(s.take())
        obs.append(pool_obs(pool, rec))
    shutdown(loop)
    if any(len(r) != 1 for r in replies):
        out.append({"key": "not exactly one reply for a line", "lines": [a, b, b], "reply": repr(replies)[:300]})
    elif replies[2] != replies[1]:
        out.append({"key": "a repeated state-neutral line is answered differently the second time", "lines": [a, b, b],
                    "reply": repr(replies[1:])[:400]})
    if obs[2] != obs[1] or obs[1] != obs[0]:
        out.append({"key": "malformed line / help request altered the pool", "lines": [a, b, b], "reply": repr(obs)[:400]})
    return out


def _chunk(fn_items):
    fn, items = fn_items
    out = []
    for it in items:
        out += fn(it)
    return len(items), out


NEUTRAL = [
    "-h", "apply -h", "map --help", "cancel -h", "pool-size -h", "is-locked", "is-full", "num-running", "pool-size",
    "nope", "apply", "cancel x", "map " + VW + "work [1,", "get-group-ids nope", "cancel 7", "flush", "--", "'", "lock -x",
    "starmap -h", "num-ended 1", "apply zzz.qqq", "until-closed -h",
]


def explorer_cells(tier):
    q = tier == "quick"
    H = "apply -h"
    cells = []

    def cell(name, **scen):
        cells.append({"name": name, "world": "ctl", "scen": scen, "monitors": []})

    # (c) waiting commands, releasing events at every boundary
    cell("wait gac t2", tasks=2, sessions=[["gather-and-close", "num-running"]])
    cell("wait flush slowecb t2", tasks=2, slow_ecb=[0], sessions=[["flush", "num-running", H]])
    cell("wait until-closed closer t1", tasks=1, closer=True, sessions=[["until-closed", "pool-size -h"]])
    cell("wait until-closed | gac t1", tasks=1, sessions=[["until-closed", "-h"], ["num-running", "gather-and-close"]])
    # (d) two sessions on one pool
    cell("two sessions help|flush slowecb", tasks=1, slow_ecb=[0], sessions=[["flush", "num-ended", H], ["-h", "nope", "map --help"]])
    cell("two sessions errors|gac t1", tasks=1, sessions=[["gather-and-close"], ["cancel x", "pool-size -h", "apply"]])
    cell("two sessions unusual conversion failure", tasks=0, sessions=[["apply zzz.qqq", "-h"], ["num-running", "map os.getcwd [1,", "nope"]])
    # a task that fails: flush / gather-and-close raise inside the awaited pool method
    cell("wait flush failing t2", tasks=2, fail=[0], sessions=[["flush", "num-running", "flush -r", H]])
    cell("wait gac failing t2 | help", tasks=2, fail=[1], sessions=[["gather-and-close", "nope"], ["-h", "num-ended"]])
    # application code that waits in pool.until_closed() next to a session doing the same, and gives up (is cancelled)
    cell("until-closed | app waits in until_closed() and is cancelled | closer", tasks=1, closer=True, app_waiter=True,
         sessions=[["until-closed", "num-running"], ["until-closed"]])
    # a group spawned and cancelled back to back (both lines in the session's buffer at once), then flush from both sessions
    cell("apply+cancel-group pipelined, then flush | flush", tasks=0, burst=[0, 2],
         sessions=[["apply " + VW + "work --group-name foo", "cancel-group foo", "flush", "num-running"], ["flush", "-h"]])
    # a close attempt that was answered with a task's exception, then further attempts (same and other session)
    cell("gac failing t1, gac -r, num-running", tasks=1, fail=[0], sessions=[["gather-and-close", "gather-and-close -r", "num-running"]])
    cell("gac failing t1 | gac -r", tasks=1, fail=[0], sessions=[["gather-and-close", "num-ended"], ["gather-and-close -r", "-h"]])
    if not q:
        cell("T wait gac t3 slowecb", tasks=3, slow_ecb=[1], sessions=[["num-running", "gather-and-close -r", "cancel -h"]])
        cell("T three sessions", tasks=2, slow_ecb=[0], sessions=[["flush", H], ["-h", "cancel x"], ["until-closed"], ["gather-and-close"]])
        cell("T two sessions flush|flush", tasks=2, slow_ecb=[0, 1], sessions=[["flush", "-h"], ["flush -r", "nope"]])
    return cells


def run(tier, seed):
    t0 = time.time()
    toks = COMMANDS + VALUES
    lines = set()
    L = 2 if tier == "quick" else 3
    for n in range(1, L + 1):
        for combo in itertools.product(toks, repeat=n):
            lines.add(" ".join(combo))
    # one level deeper over a reduced alphabet
    red = ["apply", "map", "cancel", "pool-size", "flush", VW + "work", "[1,2]", "-h", "-n", "1", "x", "--", "-g", "grp"]
    for combo in itertools.product(red, repeat=L + 1):
        lines.add(" ".join(combo))
    lines |= {"until-closed", " leading", "trailing ", "a  b", "apply  " + VW + "work", "\t", "apply\t-h"}
    lines |= {"!failed! " + ln for ln in ("flush", "flush -r", "gather-and-close", "gather-and-close -r", "num-ended", "cancel 0", "-h",
                                          "flush --return-exceptions", "cancel-all", "get-group-ids apply-boom-group-0")}
    # every command alone and with one value, in a locked and in a closed pool, for both pool classes (and every
    # SimpleTaskPool command line of <= 2 tokens in the open state)
    for tags, cmds in (("locked", COMMANDS), ("closed", COMMANDS), ("simple", SIMPLE_COMMANDS),
                       ("simple,locked", SIMPLE_COMMANDS), ("simple,closed", SIMPLE_COMMANDS)):
        for c in cmds:
            lines.add(f"!{tags}! {c}")
            for v in VALUES + ["2", "[1,2] -g grp", "--group-name grp", "-m msg"]:
                lines.add(f"!{tags}! {c} {v}")
    lines = sorted(ln for ln in lines if ln.strip())
    pairs = [(a, b) for a in NEUTRAL for b in NEUTRAL]
    triples = [(a, b) for a in EFFECTFUL + NEUTRAL for b in NEUTRAL if b != "flush"]
    viols = []
    n_lines = n_pairs = 0
    jobs = min(16, os.cpu_count() or 1)
    ctx = mp.get_context("fork")
    chunks = [(check_line, lines[i::jobs * 8]) for i in range(jobs * 8)] + [(check_pair, pairs[i::jobs]) for i in range(jobs)]
    chunks += [(check_triple, triples[i::jobs]) for i in range(jobs)]
    with ctx.Pool(jobs) as pool:
        for k, (n, vs) in enumerate(pool.imap(_chunk, chunks, chunksize=1)):
            if k < jobs * 8:
                n_lines += n
            else:
                n_pairs += n
            viols += vs
    # (c)/(d): explorer over interleavings
    from aiomc.runner import run_cell

    cells = explorer_cells(tier)
    deadline = time.time() + (200 if tier == "quick" else 1500)
    st = {"states": 0, "transitions": 0, "executions": 0}
    per_cell = []
    incomplete = []
    with ctx.Pool(min(jobs, len(cells))) as pool:
        for r in pool.imap_unordered(run_cell, [(c, seed, deadline) for c in cells], chunksize=1):
            if "error" in r:
                raise RuntimeError(f"cell {r['name']}: {r['error']}\n{r.get('trace', '')}")
            for k in st:
                st[k] += r["stats"][k]
            per_cell.append({"cell": r["name"], "states": r["stats"]["states"], "executions": r["stats"]["executions"], "complete": r["complete"]})
            if not r["complete"] and not r["violations"]:
                incomplete.append(r["name"])
            for v in r["violations"]:
                viols.append({"key": v["key"], "cell": r["name"], "detail": v["detail"], "actions": v["actions"],
                              "choices": v["choices"], "scen": next(c["scen"] for c in cells if c["name"] == r["name"])})
    return {
        "violations": viols,
        "states": st["states"],
        "transitions": st["transitions"] + n_lines + n_pairs,
        "traces": st["executions"] + n_lines + n_pairs,
        "exhaustive": not incomplete,
        "samples": [{"line": lines[len(lines) // 3]}, {"pair": list(pairs[7])}, {"explorer_cell": cells[1]["name"], "scenario": cells[1]["scen"]}],
        "coverage": {
            "lines_enumerated": n_lines, "max_tokens": L + 1, "token_alphabet": len(toks), "reply_isolation_pairs": n_pairs - len(triples), "effect_then_repeated_line_triples": len(triples),
            "explorer_cells": per_cell, "cells_incomplete": incomplete,
        },
        "rule": "(a) every line of <= %d tokens over the command names + a value/junk alphabet (and <= %d tokens over a reduced "
                "alphabet), each in a fresh real session: exactly one reply (until-closed: exactly one when the pool closes), "
                "session alive and answering a follow-up, error/help replies and unknown commands leave the pool unchanged, nothing "
                "on stdout/stderr, no exception/SystemExit escapes; (b) all ordered pairs of %d state-neutral lines: the second "
                "reply equals that line's reply in a fresh session, and every (line with an effect or neutral line) followed by the same neutral line twice: both copies answered alike, pool unchanged; (c)+(d) explorer over all interleavings of loop iterations, "
                "lines of 1-4 concurrent sessions, worker/callback completions and a direct gather_and_close(): waiting "
                "commands answer exactly once and only when their wait is over, replies of concurrent sessions equal their "
                "single-session reference" % (L, L + 1, len(NEUTRAL)),
        "assumptions": ["bounds: lines <= %d tokens; <= 4 sessions; <= 3 tasks" % (L + 1)],
        "wall": time.time() - t0,
    }


def replay(v):
    if "line" in v:
        r = check_line(v["line"])
        return r[0] if r else None
    if "lines" in v:
        if len(v["lines"]) == 3:
            r = check_triple((v["lines"][0], v["lines"][1]))
        else:
            r = check_pair(tuple(v["lines"])) if len(v["lines"]) == 2 else None
        return r[0] if r else None
    if "choices" in v:
        from aiomc import explorer
        from .memworld import CtlWorld

        w, ctl = explorer.replay(lambda s, c: CtlWorld(s, c), v["scen"], v["choices"])
        return {"viol": repr(w.viol[0])} if w.viol else None
    return None
