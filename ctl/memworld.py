"""Explorer world for C18 (c)/(d): sessions on in-memory streams + a pool with gated tasks.

The explorer interleaves: loop steps, the next line of each session, completion of each gated worker /
slow callback, and (optionally) a direct gather_and_close() by the application.
"""
import asyncio
import json

from aiomc.vloop import fresh_loop, release_loop
from asyncio_taskpool import TaskPool

from .memstream import Capture, Session, make_server

WAITING = {"gather-and-close", "flush", "until-closed", "gather-and-close -r", "flush -r"}
_REF_CACHE = {}


def reference_reply(line):
    """Reply to a state-neutral line (help, error, constant property) in a fresh single session."""
    if line in _REF_CACHE:
        return _REF_CACHE[line]
    loop = fresh_loop()
    from . import verif_workers as vw

    vw.ACTIVE = vw.Recorder(loop)
    pool = TaskPool(pool_size=2)
    s = Session(loop, pool, 80, name="ref")
    loop.run_idle()
    s.take()
    s.send(line)
    loop.run_idle()
    out = s.take()
    for t in loop.live_tasks():
        t.cancel()
    loop.run_idle()
    release_loop(loop)
    _REF_CACHE[line] = out
    return out


class CtlWorld:
    def __init__(self, scen, ctl):
        self.scen = scen
        self.ctl = ctl
        # reference replies first (they use their own loops)
        self.ref = {}
        for prog in scen["sessions"]:
            for line in prog:
                if line not in WAITING and not line.startswith("num-") and not line.startswith("cancel"):
                    self.ref[line] = reference_reply(line)
        self.dead = False
        self.cap = Capture()
        self.loop = fresh_loop()
        from . import verif_workers as vw

        vw.ACTIVE = vw.Recorder(self.loop)
        self.viol = []
        self.gates = {}
        self.live = 0
        self.cb_open = 0
        self.pool = TaskPool(pool_size=scen.get("size", 2))
        self.closed = False
        self.closer = None
        w = self

        async def work(k):
            w.live += 1
            f = w.loop.create_future()
            w.gates[("w", k)] = f
            try:
                await f
                if k in scen.get("fail", ()):
                    raise RuntimeError(f"worker-{k}-failed")
            finally:
                w.gates.pop(("w", k), None)
                w.live -= 1

        async def ecb(i):
            if i in scen.get("slow_ecb", ()):
                w.cb_open += 1
                f = w.loop.create_future()
                w.gates[("ecb", i)] = f
                try:
                    await f
                finally:
                    w.gates.pop(("ecb", i), None)
                    w.cb_open -= 1

        n = scen.get("tasks", 0)
        if n:
            for k in range(n):
                self.pool.apply(work, args=(k,), end_callback=ecb)
            self.loop.run_idle()
        with self.cap.active():
            self.srv = make_server(self.pool)
            self.sessions = [Session(self.loop, self.pool, 80, name=f"sess{i}", srv=self.srv) for i in range(len(scen["sessions"]))]
            self.loop.run_idle()
        for i, s in enumerate(self.sessions):
            hs = s.take()
            if hs != [str(self.pool).encode() + b"\n"]:
                self.v("handshake failed", i, hs, s.died())
        self.sent = [0] * len(self.sessions)
        self.answered = [0] * len(self.sessions)
        self.precond = {}  # (session, k) -> what was in progress when the waiting line was sent
        self.closer_started = False
        self.appw = None  # application code waiting in pool.until_closed() (and giving up: cancelled)
        self.appw_cancelled = False

    def v(self, key, *detail):
        self.viol.append(("C18", key) + detail)

    # ------------------------------------------------------------------ explorer interface
    def idle(self):
        return not self.loop._ready

    def ready(self):
        return self.loop._ready

    def roots(self):
        tasks = sorted(self.loop.live_tasks(), key=lambda t: t.get_name())
        return [tasks, self.pool, self]

    def __canon__(self):
        return (
            sorted(self.gates.items()), self.live, self.cb_open, tuple(self.sent), tuple(self.answered),
            self.closed, self.closer_started, self.closer, self.appw, self.appw_cancelled, len(self.viol),
            [(s.reader._buffer.decode(), s.reader._eof, tuple(s.writer.writes), s.task) for s in self.sessions],
        )

    def observation(self):
        return repr((self.sent, self.answered, self.closed))

    def release(self):
        self.dead = True
        from aiomc.vloop import teardown_loop

        teardown_loop(self.loop)

    def check_writes(self, where):
        taken = [s.take() for s in self.sessions]
        for i, writes in enumerate(taken):
            # the pool counts as closed as soon as any session's gather-and-close has been answered
            for j, wbytes in enumerate(writes):
                k = self.answered[i] + j
                if k < self.sent[i] and self.scen["sessions"][i][k].startswith("gather-and-close") and wbytes == b"ok\n":  # noqa: E501
                    self.closed = True
        for i, s in enumerate(self.sessions):
            if s.died():
                self.v("session ended", i, s.died(), where)
            writes = taken[i]
            for wbytes in writes:
                k = self.answered[i]
                if k >= self.sent[i]:
                    self.v("reply without a command line", i, wbytes[:80])
                    return
                line = self.scen["sessions"][i][k]
                self.answered[i] += 1
                txt = wbytes
                if line in self.ref:
                    if [txt] != self.ref[line]:
                        self.v("reply differs from the reply of the same line in a single-session run "
                               "(foreign/stale output in the reply)", i, line, txt[:200], self.ref[line][0][:200] if self.ref[line] else None)
                elif line.startswith("gather-and-close"):
                    if txt != b"ok\n" and not (self.scen.get("fail") and b"failed" in txt):
                        self.v("gather-and-close reply", i, txt[:100])
                    if txt == b"ok\n":
                        if self.live or self.cb_open:
                            self.v("gather-and-close answered before its wait was over", i, self.live, self.cb_open)
                        self.closed = True
                    # (a reply carrying a task's exception: the method's wait ended by raising; the pool is not closed)
                elif line.startswith("flush"):
                    if txt != b"ok\n" and not (self.scen.get("fail") and b"failed" in txt):
                        self.v("flush reply", i, txt[:100])
                    pre = self.precond.get((i, k), ())
                    still = [g for g in pre if g in self.gates]
                    if still:
                        self.v("flush answered while a callback it waits for is still in progress", i, still)
                elif line == "until-closed":
                    if txt != b"True\n":
                        self.v("until-closed reply", i, txt[:100])
                    if not self.closed:
                        self.v("until-closed answered before the pool was closed", i)
                elif line.startswith("num-"):
                    if not txt.strip().isdigit():
                        self.v("counter reply is not a number", i, line, txt[:100])

    def boundary(self):
        if self.closer is not None and self.closer.done() and not self.closed:
            self.closed = True
        self.check_writes("boundary")
        if self.cap.text():
            self.v("server printed to stdout/stderr", self.cap.text()[:200])
        acts = []
        if self.loop._ready:
            acts.append(("step",))
        for i, prog in enumerate(self.scen["sessions"]):
            if self.sent[i] < len(prog):
                if self.scen.get("pipeline", True) or self.answered[i] == self.sent[i]:
                    acts.append(("send", i))
        if self.scen.get("closer") and not self.closer_started:
            acts.append(("close",))
        if self.scen.get("app_waiter"):
            if self.appw is None:
                acts.append(("appwait",))
            elif not self.appw.done() and not self.appw_cancelled:
                acts.append(("appcancel",))
        for gk in sorted(self.gates):
            if not self.gates[gk].done():
                acts.append(("fin", gk))
        return acts

    def describe(self, act):
        if act[0] == "send":
            return f"send[{act[1]}] {self.scen['sessions'][act[1]][self.sent[act[1]]]!r}"
        return repr(act)

    def do(self, act):
        with self.cap.active():
            if act[0] == "step":
                self.loop.step()
            elif act[0] == "fin":
                self.gates[act[1]].set_result(None)
            elif act[0] == "appwait":
                self.appw = asyncio.Task(self.pool.until_closed(), loop=self.loop, eager_start=True, name="appw")
                self.loop.tasks.append(self.appw)
            elif act[0] == "appcancel":
                self.appw_cancelled = True
                self.appw.cancel()
            elif act[0] == "close":
                self.closer_started = True
                self.closer = asyncio.Task(self.pool.gather_and_close(), loop=self.loop, eager_start=True, name="closer")
                self.loop.tasks.append(self.closer)
            else:
                i = act[1]
                burst = self.scen.get("burst")
                n = burst[1] if burst and burst[0] == i and self.sent[i] == 0 else 1  # the first n lines arrive in one write
                for _ in range(n):
                    k = self.sent[i]
                    line = self.scen["sessions"][i][k]
                    if line.startswith("flush"):
                        self.precond[(i, k)] = [g for g in self.gates if g[0] == "ecb"]
                    self.sessions[i].send(line)
                    self.sent[i] += 1

    def terminal(self):
        self.check_writes("terminal")
        for i, s in enumerate(self.sessions):
            missing = self.sent[i] - self.answered[i]
            if missing:
                pend = self.scen["sessions"][i][self.answered[i]]
                if pend == "until-closed" and not self.closed:
                    continue
                self.v("a line was never answered", i, pend, self.sent[i], self.answered[i])
