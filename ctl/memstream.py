"""Engine B: the real ControlServer._client_connected_cb -> ControlSession on in-memory streams.

Only the byte transport is replaced (a real asyncio.StreamReader fed by the harness, a recording
writer); handshake, parser construction by reflection, parsing, dispatch, return_or_exception, the
response buffer and the listen loop are the library's own code, run on the virtual loop.
"""
import asyncio
from typing import Literal, Union
import contextlib
import inspect
import io
import json
import sys

from aiomc.vloop import fresh_loop, release_loop
from asyncio_taskpool import SimpleTaskPool, TaskPool
from asyncio_taskpool.control.server import TCPControlServer


class Writer:
    def __init__(self):
        self.writes = []
        self.closed = False
        self.drains = 0

    def write(self, b):
        self.writes.append(bytes(b))

    async def drain(self):
        self.drains += 1

    def close(self):
        self.closed = True

    def is_closing(self):
        return self.closed

    async def wait_closed(self):
        pass

    def get_extra_info(self, *a, **k):
        return None

    def __canon__(self):
        return (tuple(self.writes), self.closed)


class StubServer:
    def __init__(self):
        self.serving = True

    def is_serving(self):
        return self.serving

    def __canon__(self):
        return (self.serving,)


def make_server(pool):
    """The real (not started) control server object; its listening socket is the only stub."""
    srv = TCPControlServer(pool, host="mem", port=0)
    srv._server = StubServer()
    return srv


class Session:
    def __init__(self, loop, pool, width=80, name="sess", handshake=True, srv=None):
        self.loop = loop
        self.pool = pool
        # sessions of one pool are served by ONE server object, as in a real deployment
        self.srv = srv if srv is not None else make_server(pool)
        self.reader = asyncio.StreamReader(loop=loop)
        self.writer = Writer()
        self.task = loop.create_task(self.srv._client_connected_cb(self.reader, self.writer), name=name)
        if handshake:
            self.reader.feed_data(json.dumps({"terminal_width": width}).encode() + b"\n")

    def send(self, line):
        self.reader.feed_data(line.encode() + b"\n")

    def eof(self):
        self.reader.feed_eof()

    def take(self):
        w = self.writer.writes[:]
        self.writer.writes.clear()
        return w

    def died(self):
        if not self.task.done():
            return None
        if self.task.cancelled():
            return "cancelled"
        e = self.task.exception()
        return f"{type(e).__name__}: {e}" if e is not None else "returned"


class Capture:
    """Records everything written to the process's stdout/stderr while active."""

    def __init__(self):
        self.out = io.StringIO()
        self.err = io.StringIO()

    @contextlib.contextmanager
    def active(self):
        so, se = sys.stdout, sys.stderr
        sys.stdout, sys.stderr = self.out, self.err
        try:
            yield
        finally:
            sys.stdout, sys.stderr = so, se

    def text(self):
        return self.out.getvalue() + self.err.getvalue()


def public_members(cls):
    """Public methods and properties of a class, computed independently of the parser."""
    out = {}
    for name in dir(cls):
        if name.startswith("_"):
            continue
        m = inspect.getattr_static(cls, name)
        if isinstance(m, (staticmethod, classmethod)):
            m = m.__func__
        if isinstance(m, property) or inspect.isfunction(m):
            out[name] = m
    return out


def nonpublic_members(cls):
    return sorted(n for n in dir(cls) if n.startswith("_"))


def make_pool(cls_name, size=float("inf"), **kw):
    from . import verif_workers as vw

    cls = POOL_CLASSES[cls_name]
    if cls_name == "SimpleTaskPool(partial)":
        import functools

        return SimpleTaskPool(functools.partial(vw.work, "frozen"), pool_size=size, **kw)
    if issubclass(cls, SimpleTaskPool):
        return cls(vw.work, pool_size=size, **kw)
    return cls(pool_size=size, **kw)


class ExtTaskPool(TaskPool):
    """Subclass adding public members (C16: 'and subclasses adding public members')."""

    def extra_method(self, count: int = 1) -> int:
        """Returns the given number plus the number of running tasks."""
        return count + self.num_running

    async def extra_coro_method(self, text: str) -> str:
        """Returns the text it was given, reversed."""
        return text[::-1]

    @property
    def extra_readonly(self) -> str:
        """A read-only extra property."""
        return "ro:" + str(self)

    @property
    def extra_value(self) -> int:
        """A read/write extra property."""
        return getattr(self, "_extra_value", 0)

    @extra_value.setter
    def extra_value(self, value: int) -> None:
        """Sets the extra value."""
        self._extra_value = value

    def _hidden(self) -> None:
        """Not public."""

    @staticmethod
    def build_info(verbose: bool = False) -> str:
        """Returns a static description of the build."""
        return "build-1" + ("-verbose" if verbose else "")

    @classmethod
    def describe_class(cls, short: bool = False) -> str:
        """Describes the pool class."""
        return cls.__name__ + ("" if short else " (a task pool)")

    def undocumented(self, prefix: str = "snap") -> str:
        return prefix + str(self.num_running)

    @property
    def undocumented_prop(self) -> int:
        return 7

    def mode_method(self, num: int, how: Literal["newest", "oldest"] = "newest", msg: Union[str, int, None] = None) -> str:
        """A method whose optional parameters are annotated with Literal[...] and a Union of several types."""
        return f"{num}:{how}:{msg}"

    def with_h_option(self, item: int, hint: str = "", verbose: bool = False) -> str:
        """A method whose optional parameter starts with the letter of the help flag."""
        return f"{item}:{hint}:{verbose}"


class ExtSimpleTaskPool(SimpleTaskPool):
    def extra_method(self, count: int = 1) -> int:
        """Returns the given number plus the number of running tasks."""
        return count + self.num_running

    def snapshot(self, prefix: str = "snap", *more: str) -> str:
        return prefix + "".join(more)

    @property
    def extra_readonly(self) -> str:
        """A read-only extra property."""
        return "ro:" + str(self)

    @property
    def verbose(self) -> bool:
        """A read/write flag (a settable property whose value is annotated bool)."""
        return getattr(self, "_verbose", False)

    @verbose.setter
    def verbose(self, value: bool) -> None:
        self._verbose = value

    @property
    def label(self) -> str:
        """A read/write text property."""
        return getattr(self, "_label", "")

    @label.setter
    def label(self, value: str) -> None:
        self._label = value


POOL_CLASSES = {
    "TaskPool": TaskPool,
    "SimpleTaskPool": SimpleTaskPool,
    "ExtTaskPool": ExtTaskPool,
    "ExtSimpleTaskPool": ExtSimpleTaskPool,
    # a SimpleTaskPool whose function (fixed at construction) is a functools.partial: a coroutine function without __name__
    "SimpleTaskPool(partial)": SimpleTaskPool,
}


def shutdown(loop):
    """Finish every task of this execution while its recorder is still the active one (coroutines that
    are merely abandoned would be finalised by the garbage collector during a later execution and
    run their callbacks there)."""
    for _ in range(8):
        live = loop.live_tasks()
        if not live:
            break
        for t in live:
            t.cancel()
        loop.run_idle()
    release_loop(loop)
