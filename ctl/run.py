"""Runner for the control-plane checks C16-C19 (evidence, replay files, exit codes)."""
import hashlib
import importlib
import json
import os
import sys
import time
import traceback

VERIF = os.path.dirname(os.path.dirname(os.path.abspath(__file__)))

LEVEL = {"C16": "exploration", "C17": "model_checking", "C18": "model_checking", "C19": "model_checking"}


def save_replay(prop, v):
    os.makedirs(os.path.join(VERIF, "replays"), exist_ok=True)
    h = hashlib.blake2b(json.dumps(v, sort_keys=True, default=str).encode(), digest_size=6).hexdigest()
    path = os.path.join(VERIF, "replays", f"{prop}-{h}.json")
    with open(path, "w") as f:
        json.dump({"property": prop, "world": "ctl", "violation": v}, f, indent=1, default=str)
    return path


def load_known(prop):
    path = os.path.join(VERIF, "known_findings.json")
    if not os.path.exists(path):
        return []
    with open(path) as f:
        return [k for k in json.load(f).get("findings", []) if k.get("status") == "open" and k["property"] == prop]


def run_property(prop, tier, seed):
    mod = importlib.import_module(f"ctl.{prop.lower()}")
    t0 = time.time()
    try:
        r = mod.run(tier, seed)
    except Exception as e:
        print(f"HARNESS-ERROR {prop}: {type(e).__name__}: {e}", file=sys.stderr)
        traceback.print_exc()
        return 2
    wall = time.time() - t0
    known = load_known(prop)
    hit = {}
    lines = []
    seen_keys = {}
    # fixed findings suppress nothing: their failing cases are replayed on every run
    n_regr = 0
    kpath = os.path.join(VERIF, "known_findings.json")
    if os.path.exists(kpath) and hasattr(mod, "replay"):
        with open(kpath) as f:
            fixed = [k for k in json.load(f).get("findings", []) if k.get("status") == "fixed" and k["property"] == prop]
        for k in fixed:
            with open(os.path.join(VERIF, k["reproducer"])) as f:
                body = json.load(f)
            n_regr += 1
            v = mod.replay(body["violation"])
            if v:
                r["violations"].append({"key": "regression of fixed finding " + k["id"], "case": body["violation"], "now": v})
    for v in r["violations"]:
        kf = next((k for k in known if k["match_key"] == v["key"]), None)
        if kf is not None:
            hit[kf["id"]] = kf
            continue
        # one replay file per distinct violation key (first occurrence), all counted
        seen_keys.setdefault(v["key"], []).append(v)
    for key, vs in seen_keys.items():
        path = save_replay(prop, vs[0])
        lines.append((path, key, vs))
    level = LEVEL[prop]
    cov = dict(r.get("coverage", {}))
    if level == "exploration":
        cov.update({
            "evaluations": r["evaluations"],
            "distinct_nontrivial": r["distinct"],
            "rule": r["rule"],
            "samples": r["samples"] or [{"note": "none"}],
            "exhaustive": True,
        })
    else:
        cov.setdefault("states", r.get("states", 0))
        cov.setdefault("transitions", r.get("transitions", 0))
        cov.setdefault("traces_validated_against_impl", r.get("traces", 0))
        cov.setdefault("samples", r.get("samples") or [{"note": "none"}])
        cov.setdefault("exhaustive", r.get("exhaustive", True))
        cov.setdefault("explanation", r.get("rule", ""))
    cov["known_findings_hit"] = sorted(hit)
    cov["fixed_finding_cases_replayed"] = n_regr
    evidence = {
        "property_id": prop,
        "tier": tier,
        "seed": seed,
        "level": level,
        "coverage": cov,
        "assumptions": r.get("assumptions", []) + [
            "the real ControlServer/ControlSession/ControlParser code of the current working tree is executed; only the byte transport is replaced (engine B) or stepped by hand (engine C)",
        ],
        "wall_s": round(wall, 2),
        "violations": sum(len(vs) for _, _, vs in lines),
    }
    evdir = os.environ.get("VERIF_EVIDENCE_DIR") or os.path.join(VERIF, "evidence")
    os.makedirs(evdir, exist_ok=True)
    with open(os.path.join(evdir, f"{prop}.json"), "w") as f:
        json.dump(evidence, f, indent=1, default=str)
    summ = {k: v for k, v in cov.items() if isinstance(v, (int, float, bool))}
    print(f"[{prop}] tier={tier} seed={seed} {summ} wall={wall:.1f}s")
    for kf in hit.values():
        print(f"KNOWN-FINDING: property={prop} {kf['what']}")
    for path, key, vs in lines:
        print(f"  {key}: {len(vs)} case(s), first: {json.dumps(vs[0], default=str)[:400]}")
        print(f"VIOLATION property={prop} replay={path}")
    return 1 if lines else 0


def run_replay(path):
    with open(path) as f:
        body = json.load(f)
    prop = body["property"]
    mod = importlib.import_module(f"ctl.{prop.lower()}")
    print(json.dumps(body["violation"], indent=1, default=str))
    if hasattr(mod, "replay"):
        v = mod.replay(body["violation"])
        if v:
            print("reproduced:", json.dumps(v, default=str)[:600])
            print(f"VIOLATION property={prop} replay={path}")
            return 1
        print("no violation on this case")
        return 0
    print("(no single-case replay for this check; re-run the check)")
    return 0
