"""Functions reachable by dotted path from control commands ('ctl.verif_workers.work').

They record into the currently active recorder (set per execution by the harness); a recorder of an
abandoned execution is muted by pointing ACTIVE elsewhere.
"""
import asyncio


class Recorder:
    def __init__(self, loop):
        self.loop = loop
        self.invocations = []
        self.gates = []
        self.cancels = 0
        self.cbs = []

    def obs(self):
        return (tuple(self.invocations), self.cancels, tuple(self.cbs), sum(1 for g in self.gates if not g.done()))


ACTIVE = None


async def work(*args, **kwargs):
    rec = ACTIVE
    rec.invocations.append(("work", repr(args), repr(sorted(kwargs.items()))))
    f = rec.loop.create_future()
    rec.gates.append(f)
    try:
        await f
    except asyncio.CancelledError as e:
        rec.cancels += 1
        rec.invocations.append(("cancelled-with", repr(e.args)))
        raise
    return "done"


async def work2(x, y=0):
    rec = ACTIVE
    rec.invocations.append(("work2", repr(x), repr(y)))
    f = rec.loop.create_future()
    rec.gates.append(f)
    await f


async def boom(*args, **kwargs):
    ACTIVE.invocations.append(("boom", repr(args), repr(sorted(kwargs.items()))))
    raise RuntimeError("kaputt-" + repr(args))


def notcoro(*args, **kwargs):
    ACTIVE.invocations.append(("notcoro", repr(args), repr(kwargs)))


def ecb(task_id):
    ACTIVE.cbs.append(("ecb", task_id))


class Handler:
    """Module-level object whose bound methods are named on the command line (dotted path through an instance)."""

    async def work(self, *args, **kwargs):
        ACTIVE.invocations.append(("handler.work runs on", "the object the path names now" if self is handler else "ANOTHER OBJECT"))
        return await work(*args, **kwargs)

    def on_end(self, task_id):
        ACTIVE.cbs.append(("handler.on_end", task_id, "same object" if self is handler else "A COPY"))

    async def on_cancel(self, task_id):
        ACTIVE.cbs.append(("handler.on_cancel", task_id, "same object" if self is handler else "A COPY"))

    @classmethod
    def cls_on_end(cls, task_id):
        ACTIVE.cbs.append((cls.__name__ + ".cls_on_end", task_id))


handler = Handler()


def ecb_raise(task_id):
    ACTIVE.cbs.append(("ecb_raise", task_id))
    raise RuntimeError("callback-failed-%s" % task_id)


async def accb(task_id):
    ACTIVE.cbs.append(("accb", task_id))
