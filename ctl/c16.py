"""C16  Any pool can be served: handshake succeeds, full command surface (exhaustive finite enumeration)."""
import inspect
import json
import os
import time

from aiomc.vloop import fresh_loop, release_loop
from asyncio_taskpool.internals.helpers import get_first_doc_line

from . import verif_workers as vw
from .memstream import POOL_CLASSES, Capture, Session, make_pool, nonpublic_members, public_members, shutdown

VERIF = os.path.dirname(os.path.dirname(os.path.abspath(__file__)))


def widths(tier):
    if tier == "quick":
        return [None, -2, 0, 1, 2, 10, 11, 20, 40, 79, 80, 120, 300, 1000, 10**6]
    return [None] + list(range(-2, 301)) + [1000, 10**6]


def pool_obs(pool):
    return (pool.num_running, pool.num_cancelled, pool.num_ended, pool.is_locked, pool.is_full, pool.pool_size, str(pool))


def first_doc(member):
    if isinstance(member, property):
        return get_first_doc_line(member.fget)
    return get_first_doc_line(member)


def squash(s):
    return " ".join(s.split())


STATES = ("open", "locked", "closed", "busy+locked", "shrunk")


def prepare(pool, loop, state):
    """Puts the pool into the state in which it is going to be served."""
    from asyncio_taskpool import SimpleTaskPool

    if state in ("busy+locked", "shrunk"):
        if isinstance(pool, SimpleTaskPool):
            pool.start(2)
        else:
            pool.apply(vw.work, num=2)
        loop.run_idle()
    if state == "shrunk":
        pool.pool_size = 1  # below its occupancy
    if state in ("locked", "closed", "busy+locked"):
        pool.lock()
    if state == "closed":
        loop.create_task(pool.gather_and_close())
        loop.run_idle()


def run(tier, seed):
    t0 = time.time()
    viols = []
    evaluations = 0
    distinct = set()
    samples = []
    cap = Capture()
    for cls_name, cls in POOL_CLASSES.items():
        pub = public_members(cls)
        nonpub = nonpublic_members(cls)
        combos = [(w_, "open") for w_ in widths(tier)] + [(w_, st) for st in STATES[1:] for w_ in (None, 80, 300)]
        combos += [(80, "open+silent"), (None, "open+silent")]
        for width, state in combos:
            loop = fresh_loop()
            vw.ACTIVE = vw.Recorder(loop)
            pool = make_pool(cls_name, 3)
            prepare(pool, loop, state)
            with cap.active():
                silent = None
                if state == "open+silent":
                    # an earlier connection that has been accepted but has not sent its handshake line (yet)
                    silent = Session(loop, pool, width, name="silent", handshake=False)
                    loop.run_idle()
                s = Session(loop, pool, width, srv=silent.srv if silent else None)
                loop.run_idle()
            hs = s.take()
            evaluations += 1
            if hs != [str(pool).encode() + b"\n"] or s.died():
                viols.append({"key": "handshake", "cls": cls_name, "width": width, "state": state, "reply": repr(hs)[:200], "session": s.died()})
                release_loop(loop)
                continue

            def ask(line):
                nonlocal evaluations
                with cap.active():
                    s.send(line)
                    loop.run_idle()
                evaluations += 1
                return [b.decode() for b in s.take()]

            # top-level help lists exactly the public commands
            out = ask("-h")
            if len(out) != 1:
                viols.append({"key": "top-level help: not exactly one reply", "cls": cls_name, "width": width, "state": state, "n": len(out)})
            elif width is None or width >= 40:
                listed = squash(out[0])
                for name in pub:
                    if name.replace("_", "-") not in listed:
                        viols.append({"key": "public member missing from top-level help", "cls": cls_name, "width": width, "state": state, "member": name})
                for name in nonpub:
                    if squash(" " + name.replace("_", "-") + " ") in (" " + listed + " ") and name.strip("_"):
                        viols.append({"key": "non-public member listed in top-level help", "cls": cls_name, "width": width, "state": state, "member": name})
            first_answers = {}
            for name, member in pub.items():
                cmd = name.replace("_", "-")
                before = pool_obs(pool)
                out = ask(cmd + " -h")
                first_answers[cmd] = out
                distinct.add((cls_name, cmd))
                ok = len(out) == 1 and ("usage: " + cmd) in out[0]
                doc = first_doc(member)
                if ok and doc and (width is None or width >= 300):
                    if isinstance(member, property) and member.fset is not None:
                        ok = squash(first_doc(member)) in squash(out[0]) or "Get/set" in out[0]
                    else:
                        ok = squash(doc) in squash(out[0])
                if not ok:
                    viols.append({"key": "public command not available / help wrong", "cls": cls_name, "width": width, "state": state, "cmd": cmd, "reply": repr(out)[:300]})
                out2 = ask(cmd + " --help")
                if out2 != out:
                    viols.append({"key": "--help differs from -h", "cls": cls_name, "width": width, "state": state, "cmd": cmd})
                if pool_obs(pool) != before:
                    viols.append({"key": "help request changed the pool", "cls": cls_name, "width": width, "state": state, "cmd": cmd})
                if len(samples) < 3 and width == 80:
                    samples.append({"class": cls_name, "terminal_width": width, "line": cmd + " -h", "reply": out[:1]})
            for name in nonpub:
                cmd = name.replace("_", "-")
                before = pool_obs(pool)
                out = ask(cmd)
                distinct.add((cls_name, cmd))
                bad = len(out) != 1 or out[0].strip() == "ok" or pool_obs(pool) != before
                if not bad:
                    txt = out[0]
                    # an error message, never a result
                    bad = not ("usage" in txt or "invalid choice" in txt or "error" in txt or "expected" in txt or "unrecognized" in txt)
                if bad:
                    viols.append({"key": "non-public member reachable as a command", "cls": cls_name, "width": width, "state": state, "cmd": cmd, "reply": repr(out)[:300]})
            if s.died():
                viols.append({"key": "session ended during enumeration", "cls": cls_name, "width": width, "state": state, "how": s.died()})
            if width in (None, 80, 300):
                # "from then on": a long session history must not wear the command surface out - here: one reply
                # far longer than any help text (a usage error echoing a 6000-character argument), then all help again
                long_out = ask("cancel " + "9" * 6000 + "x")
                if len(long_out) != 1 or len(long_out[0]) < 4096:
                    viols.append({"key": "long erroneous argument not echoed in one reply", "cls": cls_name, "width": width, "state": state, "n": len(long_out)})
                for cmd, want in first_answers.items():
                    got = ask(cmd + " -h")
                    if got != want:
                        viols.append({"key": "command help changed after a long reply in the same session", "cls": cls_name,
                                      "width": width, "cmd": cmd, "reply": repr(got)[:200]})
            if width in (None, 80, 120):
                # a second client of the same pool (same terminal width) while the first is still connected
                with cap.active():
                    s2 = Session(loop, pool, width, name="sess2", srv=s.srv)
                    loop.run_idle()
                evaluations += 1
                if s2.take() != [str(pool).encode() + b"\n"] or s2.died():
                    viols.append({"key": "handshake of a second client", "cls": cls_name, "width": width, "state": state, "session": s2.died()})
                else:
                    for cmd, want in first_answers.items():
                        with cap.active():
                            s2.send(cmd + " -h")
                            loop.run_idle()
                        evaluations += 1
                        got = [b.decode() for b in s2.take()]
                        if got != want or s.take():
                            viols.append({"key": "second client: command help differs / leaks into the first session", "cls": cls_name,
                                          "width": width, "cmd": cmd, "reply": repr(got)[:200]})
                    # ... and the first client still gets its own answers while the second one is connected
                    for cmd, want in first_answers.items():
                        with cap.active():
                            s.send(cmd + " -h")
                            loop.run_idle()
                        evaluations += 1
                        got = [b.decode() for b in s.take()]
                        if got != want or s2.take():
                            viols.append({"key": "first client's command help changed once a second client connected", "cls": cls_name,
                                          "width": width, "cmd": cmd, "reply": repr(got)[:200]})
            shutdown(loop)
    if cap.text():
        viols.append({"key": "server printed to stdout/stderr", "text": cap.text()[:300]})
    return {
        "violations": viols,
        "evaluations": evaluations,
        "distinct": len(distinct),
        "samples": samples,
        "wall": time.time() - t0,
        "rule": "every (pool class in {TaskPool, SimpleTaskPool, subclass of each with extra public members}) x "
                "(terminal width in the tier's set incl. None, negative, 0, huge; widths None/80/300 also for a pool that is locked, closed, busy and locked, shrunk below its occupancy when served) x (every name in dir(cls)): public "
                "names (computed with inspect, independently of the parser) are sent as '<name-with-dashes> -h' and "
                "'--help', non-public names without -h; distinct = distinct (class, command) pairs; all are non-trivial "
                "(each exercises a different sub-parser or rejection path)",
    }


def replay(v):
    """Re-runs the handshake (and the one command, if any) of a recorded case."""
    cap = Capture()
    loop = fresh_loop()
    vw.ACTIVE = vw.Recorder(loop)
    pool = make_pool(v["cls"], 3)
    prepare(pool, loop, v.get("state", "open"))
    with cap.active():
        silent = Session(loop, pool, v.get("width"), name="silent", handshake=False) if v.get("state") == "open+silent" else None
        loop.run_idle()
        s = Session(loop, pool, v.get("width"), srv=silent.srv if silent else None)
        loop.run_idle()
    hs = s.take()
    out = None
    if hs != [str(pool).encode() + b"\n"] or s.died():
        out = {"key": "handshake", "reply": repr(hs)[:200], "session": s.died()}
    elif v.get("cmd"):
        nonpub = v["key"].startswith("non-public")
        with cap.active():
            s.send(v["cmd"] + ("" if nonpub else " -h"))
            loop.run_idle()
        r = [b.decode() for b in s.take()]
        if nonpub:
            if len(r) != 1 or r[0].strip() == "ok":
                out = {"key": v["key"], "reply": r}
        elif len(r) != 1 or ("usage: " + v["cmd"]) not in r[0]:
            out = {"key": v["key"], "reply": r}
    shutdown(loop)
    return out
