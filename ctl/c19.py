"""C19  Control server lifecycle over real sockets (engine C).

A real SelectorEventLoop stepped by hand (the kernel is the only part not owned): server, sessions
and raw stream clients share one deterministic Python-side schedule; between explorer events the
loop is run to quiescence.  Exhaustive enumeration of connect/command/disconnect/stop histories for
0..2 clients over TCP and Unix sockets, plus scripted histories with the bundled CLI client as a
real subprocess.
"""
import asyncio
import itertools
import json
import multiprocessing as mp
import os
import shutil
import signal
import subprocess
import sys
import tempfile
import time
from asyncio import events

from asyncio_taskpool import SimpleTaskPool
from asyncio_taskpool.control.server import TCPControlServer, UnixControlServer

import aiomc.vloop  # noqa: F401  (silences library/asyncio logging, warnings and unraisable-hook noise)

from . import verif_workers as vw

SCALE = 1.0


STEP_CPU_LIMIT = 2.0  # seconds of CPU time one loop iteration may burn before it counts as blocking the loop


class LoopBlocked(Exception):
    pass


def _on_vtalrm(signum, frame):
    loop = SLoop.current
    if loop is not None:
        loop.blocked += 1
    raise LoopBlocked("one event-loop iteration burned more than %.0f s of CPU" % STEP_CPU_LIMIT)


class SLoop(asyncio.SelectorEventLoop):
    _last_events = 0
    current = None

    def __init__(self):
        super().__init__()
        self.exc_log = []
        self.blocked = 0
        self.set_exception_handler(lambda loop, ctx: self.exc_log.append(ctx))
        SLoop.current = self
        signal.signal(signal.SIGVTALRM, _on_vtalrm)

    def _run_once(self):
        # watchdog: code that spins without ever suspending (e.g. a read loop at EOF) would hang the whole
        # exploration; CPU time (not wall time) so that a stalled machine cannot trip it
        signal.setitimer(signal.ITIMER_VIRTUAL, STEP_CPU_LIMIT, STEP_CPU_LIMIT)
        try:
            super()._run_once()
        except LoopBlocked:
            pass
        finally:
            signal.setitimer(signal.ITIMER_VIRTUAL, 0)

    def quiesce(self, window=None, need=2, maxrounds=4000):
        window = (window or 0.004) * SCALE
        quiet = 0
        rounds = 0
        while quiet < need:
            rounds += 1
            if rounds > maxrounds:
                raise AssertionError("no quiescence")
            fired = []
            h = self.call_later(window, fired.append, 1)
            before = len(self._ready)
            self._last_events = 0
            self._run_once()
            if fired and not self._ready and before == 0 and self._last_events == 0:
                quiet += 1
            else:
                quiet = 0
            if not fired:
                h.cancel()

    def _process_events(self, event_list):
        self._last_events = len(event_list)
        super()._process_events(event_list)

    def run_coro(self, coro, maxq=200):
        t = self.create_task(coro)
        n = 0
        while not t.done():
            self.quiesce()
            n += 1
            if n > maxq:
                t.cancel()
                raise AssertionError("coroutine did not finish")
        return t.result()


def lifecycles():
    # connect and handshake are separate events, so handshakes of two clients can overlap
    for end in ("close", "eof"):
        yield ["conn", "hs", "cmd", end]
        yield ["conn", "hs", end]
    yield ["conn", "close"]  # a client that leaves without ever sending its handshake


def interleave(seqs):
    if all(not s for s in seqs):
        yield []
        return
    for i, s in enumerate(seqs):
        if s:
            rest = [x if j != i else x[1:] for j, x in enumerate(seqs)]
            for tail in interleave(rest):
                yield [(i, s[0])] + tail


def histories(nclients, max_cmds=None):
    """all interleavings of per-client lifecycles, with 'stop' at every position"""
    for lcs in itertools.product(*[list(lifecycles()) for _ in range(nclients)]):
        if max_cmds is not None and sum(l.count("cmd") for l in lcs) > max_cmds:
            continue
        for il in interleave([list(l) for l in lcs]):
            for pos in range(len(il) + 1):
                yield il[:pos] + [("S", "stop")] + il[pos:]


def run_history(kind, hist, tmp, cmd="num-running", early=None):
    """Runs one history against a real server; returns (violations, abstract states visited)."""
    loop = SLoop()
    events._set_running_loop(loop)
    vw.ACTIVE = vw.Recorder(loop)
    viol = []
    states = []
    task = None
    conns = {}
    path = os.path.join(tmp, f"s{os.getpid()}.sock")
    try:
        pool = SimpleTaskPool(vw.work, pool_size=3)
        srv = UnixControlServer(pool, socket_path=path) if kind == "unix" else TCPControlServer(pool, host="127.0.0.1", port=0)
        if early is None:
            task = loop.run_coro(srv.serve_forever())
        else:
            # the stop (cancellation of the serving task) comes `early` loop iterations after serve_forever() returned
            async def start_and_stop():
                t = await srv.serve_forever()
                for _ in range(early):
                    await asyncio.sleep(0)
                t.cancel()
                return t

            task = loop.run_coro(start_and_stop())
        if not isinstance(task, asyncio.Task):
            viol.append("serve_forever() did not return a task")
            return viol, states
        stopped = early is not None
        if not stopped and (task.done() or not srv.is_serving()):
            viol.append("serve_forever() returned but the server is not serving")
        if not stopped and kind == "unix" and not os.path.exists(path):
            viol.append("unix socket file missing while serving")
        pool.start(1)
        loop.quiesce()
        port = None if kind == "unix" else srv._server.sockets[0].getsockname()[1] if srv._server.sockets else 1
        expected_running = 1
        if stopped:
            if srv.is_serving():
                viol.append(("is_serving() still true after a stop that came %d loop iteration(s) after the start" % early,))
            if not task.done():
                viol.append(("no client ever connected but the cancelled serving task is still pending (stop %d iteration(s) after start)" % early,))
            if kind == "unix" and os.path.exists(path):
                viol.append(("unix socket file still exists after an early stop (%d iteration(s) after start)" % early,))
        open_clients = set()
        parked = set()  # clients whose session sits in a waiting command (until-closed on a pool that is never closed)

        def connect():
            if kind == "unix":
                return loop.run_coro(asyncio.open_unix_connection(path))
            return loop.run_coro(asyncio.open_connection("127.0.0.1", port))

        for who, ev in hist:
            if ev == "stop":
                task.cancel()
                loop.quiesce()
                stopped = True
                if srv.is_serving():
                    viol.append("is_serving() still true after the serving task was cancelled")
            elif ev == "conn":
                if stopped:
                    try:
                        r, w = connect()
                        w.close()
                        viol.append("address still accepts connections after stop")
                    except (ConnectionRefusedError, FileNotFoundError):
                        pass
                    conns[who] = None
                else:
                    r, w = connect()
                    conns[who] = (r, w)
                    open_clients.add(who)
                    loop.quiesce()
            elif conns.get(who) is None:
                pass
            elif ev == "hs":
                r, w = conns[who]
                w.write(json.dumps({"terminal_width": 80}).encode() + b"\n")
                loop.quiesce()
                got = bytes(r._buffer)
                r._buffer.clear()
                if got != str(pool).encode() + b"\n":
                    if stopped and got == b"" and r.at_eof():
                        open_clients.discard(who)  # conforming: connected before the stop, dropped after it
                    else:
                        viol.append(("handshake reply is not the pool's name", got, "stopped" if stopped else "serving"))
                elif not stopped and r.at_eof():
                    viol.append("server dropped a client right after its handshake while serving")
            elif conns.get(who) is None:
                pass
            elif ev == "cmd" and cmd in ("wait|num-running", "gac|num-running") and who == 0:
                # client 0 parks in a command that waits (until-closed, or gather-and-close while a task runs); it must
                # not be answered, and it must not keep the other client from being served
                r, w = conns[who]
                waiting = b"until-closed" if cmd == "wait|num-running" else b"gather-and-close"
                w.write(waiting + b"\n")
                loop.quiesce()
                got = bytes(r._buffer)
                r._buffer.clear()
                if got and not (stopped and r.at_eof()):
                    viol.append((waiting.decode() + " answered although the pool is not closed / its task still runs", got))
                if not r.at_eof():
                    parked.add(who)
            elif ev == "cmd":
                r, w = conns[who]
                this_cmd = "num-running" if cmd in ("wait|num-running", "gac|num-running") else cmd
                w.write(this_cmd.encode() + b"\n")
                loop.quiesce()
                got = bytes(r._buffer)
                r._buffer.clear()
                if this_cmd == "num-running":
                    want = str(expected_running).encode() + b"\n"
                elif this_cmd.startswith("cancel 7 "):
                    # an argument with an unbalanced quote, for a task that does not exist: answered (with an error text), never fatal
                    want = got if got.strip() and (stopped or not r._eof) else b"<any reply>"
                elif this_cmd.endswith(" -h"):
                    # help of a sub-command: printed by the session's own sub-parser into this session's reply
                    want = got if got.startswith(b"usage: " + this_cmd[:-3].encode()) else b"usage: " + this_cmd[:-3].encode() + b" ..."
                else:  # "start 1"
                    want = b"start-group-1\n"
                if got == want:
                    if this_cmd == "start 1":
                        expected_running += 1
                elif stopped and got == b"" and r.at_eof():
                    # conforming: after stop the server may drop a still-connected client
                    open_clients.discard(who)
                else:
                    viol.append(("command not answered correctly", this_cmd, got, "stopped" if stopped else "serving", "others open", sorted(open_clients - {who})))
            elif ev in ("close", "eof"):
                r, w = conns[who]
                if ev == "close":
                    w.close()
                else:
                    try:
                        w.write_eof()
                    except (OSError, RuntimeError):
                        pass
                loop.quiesce()
                open_clients.discard(who)
                if ev == "eof":
                    if not r.at_eof():
                        viol.append("server did not close the connection after the client's EOF")
                    w.close()
                    loop.quiesce()
                if pool.num_running != expected_running:
                    viol.append(("a client disconnecting changed the pool", pool.num_running, expected_running))
            if stopped:
                if not open_clients and not task.done():
                    if parked:
                        # known finding KF-C19-1: the session of a client that left while its waiting command was still
                        # pending never ends (it is not reading, so it does not notice the disconnect)
                        viol.append(("KF-C19-1 parked session: a client that disconnected while its until-closed was pending "
                                     "keeps the cancelled serving task pending", ev))
                    else:
                        viol.append(("every client is gone but the cancelled serving task is still pending", ev))
                if task.done():
                    if kind == "unix" and os.path.exists(path):
                        viol.append("serving task done but the unix socket file still exists")
                    if srv.is_serving():
                        viol.append("serving task done but is_serving() is true")
            elif task.done():
                viol.append("serving task ended although it was not cancelled")
            states.append((stopped, tuple(sorted(open_clients)), task.done()))
            if loop.blocked:
                viol.append(("one session blocked the event loop (pool tasks, other sessions and the serving task starve): "
                             "a loop iteration burned more than %.0f s of CPU without suspending" % STEP_CPU_LIMIT, ev))
                break
        if pool.num_running != expected_running:
            viol.append(("pool disturbed", pool.num_running, expected_running))
        if vw.ACTIVE.cancels:
            viol.append(("a pool task was cancelled although no client asked for it", vw.ACTIVE.cancels))
    except AssertionError as e:
        viol.append(("harness", str(e)))
    except Exception as e:  # noqa: BLE001
        viol.append(("unexpected exception", type(e).__name__, str(e)))
    finally:
        try:
            for c in list(conns.values()):
                if c:
                    c[1].close()
            if task is not None and not task.done():
                task.cancel()
            for t in asyncio.all_tasks(loop):
                t.cancel()
            loop.quiesce()
        except BaseException:  # noqa: BLE001
            pass
        events._set_running_loop(None)
        try:
            loop.close()
        except Exception:  # noqa: BLE001
            pass
        if os.path.exists(path):
            os.unlink(path)
    return viol, states


def run_halfclose(kind, tmp, variant):
    """A client that sends its commands, half-closes (EOF) and reads until the server closes: the reply to a last command that
    was still waiting (gather-and-close while a task runs) must still arrive once the wait is over."""
    loop = SLoop()
    events._set_running_loop(loop)
    vw.ACTIVE = vw.Recorder(loop)
    viol = []
    path = os.path.join(tmp, f"h{os.getpid()}.sock")
    task = None
    w = None
    try:
        pool = SimpleTaskPool(vw.work, pool_size=3)
        srv = UnixControlServer(pool, socket_path=path) if kind == "unix" else TCPControlServer(pool, host="127.0.0.1", port=0)
        task = loop.run_coro(srv.serve_forever())
        pool.start(1)
        loop.quiesce()
        if kind == "unix":
            r, w = loop.run_coro(asyncio.open_unix_connection(path))
        else:
            r, w = loop.run_coro(asyncio.open_connection("127.0.0.1", srv._server.sockets[0].getsockname()[1]))
        w.write(json.dumps({"terminal_width": 80}).encode() + b"\n")
        loop.quiesce()
        r._buffer.clear()
        lines = [b"num-running", b"gather-and-close"] if variant == "pipelined" else [b"gather-and-close"]
        want = b"1\nok\n" if variant == "pipelined" else b"ok\n"
        for ln in lines:
            w.write(ln + b"\n")
        loop.quiesce()
        w.write_eof()  # the client has said everything; it keeps reading
        loop.quiesce()
        for g in vw.ACTIVE.gates:  # the pool's task ends: the close can complete
            if not g.done():
                g.set_result(None)
        loop.quiesce()
        got = bytes(r._buffer)
        if got != want:
            viol.append(("a client that half-closed after its last command did not get that command's reply", variant, got))
        elif not r._eof:  # (at_eof() is only true once the buffered reply has been consumed)
            viol.append(("server did not close the connection after answering a half-closed client", variant))
        if loop.blocked:
            viol.append(("one session blocked the event loop", variant))
    except AssertionError as e:
        viol.append(("harness", str(e)))
    except Exception as e:  # noqa: BLE001
        viol.append(("unexpected exception", type(e).__name__, str(e)))
    finally:
        try:
            if w is not None:
                w.close()
            if task is not None and not task.done():
                task.cancel()
            for t in asyncio.all_tasks(loop):
                t.cancel()
            loop.quiesce()
        except BaseException:  # noqa: BLE001
            pass
        events._set_running_loop(None)
        try:
            loop.close()
        except Exception:  # noqa: BLE001
            pass
        if os.path.exists(path):
            os.unlink(path)
    return viol


def run_two_servers(kind_a, kind_b, tmp, order):
    """Two pools, each with its own control server, in one event loop: stopping one server while the OTHER one has a client
    connected completes the stopped server's task (its own clients are gone), removes its socket file, and leaves the other
    server serving."""
    loop = SLoop()
    events._set_running_loop(loop)
    vw.ACTIVE = vw.Recorder(loop)
    viol = []
    paths = [os.path.join(tmp, f"a{os.getpid()}.sock"), os.path.join(tmp, f"b{os.getpid()}.sock")]
    tasks = []
    writers = []
    try:
        pools = [SimpleTaskPool(vw.work, pool_size=3), SimpleTaskPool(vw.work, pool_size=3)]
        srvs = []
        for kind, pool, path in zip((kind_a, kind_b), pools, paths):
            srv = UnixControlServer(pool, socket_path=path) if kind == "unix" else TCPControlServer(pool, host="127.0.0.1", port=0)
            srvs.append(srv)
            tasks.append(loop.run_coro(srv.serve_forever()))
        loop.quiesce()

        def connect(i):
            if (kind_a, kind_b)[i] == "unix":
                r, w = loop.run_coro(asyncio.open_unix_connection(paths[i]))
            else:
                r, w = loop.run_coro(asyncio.open_connection("127.0.0.1", srvs[i]._server.sockets[0].getsockname()[1]))
            w.write(json.dumps({"terminal_width": 80}).encode() + b"\n")
            loop.quiesce()
            got = bytes(r._buffer)
            r._buffer.clear()
            if got != str(pools[i]).encode() + b"\n":
                viol.append(("handshake reply is not the pool's name", i, got))
            writers.append(w)
            return r, w

        rb, wb = connect(1)  # a client of server B stays connected
        if order == "a-client-came-and-went":
            ra, wa = connect(0)
            wa.close()
            loop.quiesce()
        tasks[0].cancel()  # stop server A
        loop.quiesce()
        if not tasks[0].done():
            viol.append(("every client of the stopped server is gone but its cancelled serving task is still pending "
                         "(a client of ANOTHER server is connected)", kind_a, kind_b, order))
        if srvs[0].is_serving():
            viol.append(("is_serving() still true after the serving task was cancelled", kind_a))
        if kind_a == "unix" and os.path.exists(paths[0]):
            viol.append(("stopped unix server's socket file still exists", order))
        wb.write(b"num-running\n")
        loop.quiesce()
        if bytes(rb._buffer) != b"0\n":
            viol.append(("the other server's client is no longer served after the first server was stopped", bytes(rb._buffer)))
        if loop.blocked:
            viol.append(("one session blocked the event loop", order))
    except AssertionError as e:
        viol.append(("harness", str(e)))
    except Exception as e:  # noqa: BLE001
        viol.append(("unexpected exception", type(e).__name__, str(e)))
    finally:
        try:
            for w in writers:
                w.close()
            for t in tasks:
                if not t.done():
                    t.cancel()
            for t in asyncio.all_tasks(loop):
                t.cancel()
            loop.quiesce()
        except BaseException:  # noqa: BLE001
            pass
        events._set_running_loop(None)
        try:
            loop.close()
        except Exception:  # noqa: BLE001
            pass
        for path in paths:
            if os.path.exists(path):
                os.unlink(path)
    return viol


def _work(args):
    global SCALE
    if args[0] == "twoservers":
        tmp = tempfile.mkdtemp(prefix="ctlsock")
        out = []
        n = 0
        try:
            for ka in ("unix", "tcp"):
                for kb in ("unix", "tcp"):
                    for order in ("no-client-of-a", "a-client-came-and-went"):
                        n += 1
                        SCALE = 1.0
                        v = run_two_servers(ka, kb, tmp, order)
                        if v and not all(x[0] == "harness" for x in v):
                            SCALE = 10.0
                            v = run_two_servers(ka, kb, tmp, order)
                            SCALE = 1.0
                        for x in v:
                            out.append({"key": "HARNESS" if x[0] == "harness" else str(x[0]), "twoservers": [ka, kb, order], "detail": repr(x)})
        finally:
            shutil.rmtree(tmp, ignore_errors=True)
        return n, 6 * n, out, set()
    if args[0] == "halfclose":
        tmp = tempfile.mkdtemp(prefix="ctlsock")
        out = []
        try:
            for variant in ("single", "pipelined"):
                SCALE = 1.0
                v = run_halfclose(args[1], tmp, variant)
                if v and not all(x[0] == "harness" for x in v):
                    SCALE = 10.0
                    v = run_halfclose(args[1], tmp, variant)
                    SCALE = 1.0
                for x in v:
                    out.append({"key": "HARNESS" if x[0] == "harness" else str(x[0]), "transport": args[1], "halfclose": variant, "detail": repr(x)})
        finally:
            shutil.rmtree(tmp, ignore_errors=True)
        return 2, 10, out, set()
    if len(args) == 4:
        return _work_early(args)
    kind, hists, cmd = args
    tmp = tempfile.mkdtemp(prefix="ctlsock")
    out = []
    states = set()
    n = 0
    try:
        for hist in hists:
            SCALE = 1.0
            v, st = run_history(kind, hist, tmp, cmd)
            if v and all(isinstance(x, tuple) and str(x[0]).startswith("KF-C19-1") for x in v):
                # the known parked-session finding does not depend on timing: no 10x re-run needed
                out.append({"key": v[0][0], "transport": kind, "history": hist, "cmd": cmd, "detail": repr(v[0])})
            elif v:
                # confirm with 10x quiescence windows before believing it (kernel timing is not owned)
                SCALE = 10.0
                v2, st = run_history(kind, hist, tmp, cmd)
                SCALE = 1.0
                if v2 and not all(isinstance(x, tuple) and x[0] == "harness" for x in v2):
                    for x in v2:
                        out.append({"key": x if isinstance(x, str) else str(x[0]), "transport": kind, "history": hist, "cmd": cmd, "detail": repr(x)})
                elif v2:
                    out.append({"key": "HARNESS", "detail": repr(v2), "history": hist})
            states.update(st)
            n += 1
            if any(o["key"].startswith("one session blocked the event loop") for o in out):
                break  # every further history with the same client behaviour would burn the watchdog limit again
    finally:
        shutil.rmtree(tmp, ignore_errors=True)
    return n, sum(len(h) for h in hists), out, states


def _work_early(args):
    kind, hists, cmd, early = args
    tmp = tempfile.mkdtemp(prefix="ctlsock")
    out = []
    states = set()
    n = 0
    try:
        for hist in hists:
            v, st = run_history(kind, hist, tmp, cmd, early=early)
            for x in v:
                out.append({"key": x if isinstance(x, str) else str(x[0]), "transport": kind, "history": hist, "cmd": cmd,
                            "early_stop": early, "detail": repr(x)})
            states.update(st)
            n += 1
    finally:
        shutil.rmtree(tmp, ignore_errors=True)
    return n, sum(len(h) for h in hists) + len(hists), out, states


# --------------------------------------------------------------------------------------
# the bundled CLI client as a real subprocess
def cli_histories(tmp):
    viol = []
    n = 0
    env = dict(os.environ)
    for kind in ("tcp", "unix"):
        for script in (["num-running", "exit"], ["-h", None], ["start 1", "num-running", "exit"], ["STOP", "num-running", None]):
            n += 1
            loop = SLoop()
            events._set_running_loop(loop)
            vw.ACTIVE = vw.Recorder(loop)
            path = os.path.join(tmp, "cli.sock")
            task = None
            proc = None
            try:
                pool = SimpleTaskPool(vw.work, pool_size=3)
                srv = UnixControlServer(pool, socket_path=path) if kind == "unix" else TCPControlServer(pool, host="127.0.0.1", port=0)
                task = loop.run_coro(srv.serve_forever())
                pool.start(1)
                loop.quiesce()
                if kind == "unix":
                    argv = ["unix", path]
                else:
                    argv = ["tcp", "127.0.0.1", str(srv._server.sockets[0].getsockname()[1])]
                proc = subprocess.Popen([sys.executable, "-m", "asyncio_taskpool.control"] + argv, stdin=subprocess.PIPE,
                                        stdout=subprocess.PIPE, stderr=subprocess.PIPE, env=env)
                os.set_blocking(proc.stdout.fileno(), False)
                out = b""

                def pump(until, timeout=15.0):
                    nonlocal out
                    t0 = time.time()
                    while time.time() - t0 < timeout:
                        loop.quiesce(window=0.01)
                        try:
                            chunk = proc.stdout.read()
                        except (BlockingIOError, ValueError):
                            chunk = None
                        if chunk:
                            out += chunk
                        if until():
                            return True
                    return False

                if not pump(lambda: b"Connected to " + str(pool).encode() in out):
                    viol.append({"key": "CLI client: no handshake", "transport": kind, "script": script, "stdout": out.decode()[-300:]})
                    continue
                running = 1
                stopped = False
                for line in script:
                    if line == "STOP":
                        task.cancel()
                        loop.quiesce()
                        stopped = True
                        continue
                    if line is None:
                        proc.stdin.close()
                        break
                    mark = len(out)
                    proc.stdin.write(line.encode() + b"\n")
                    proc.stdin.flush()
                    if line == "exit":
                        break
                    if line == "num-running":
                        want = str(running).encode()
                    elif line == "start 1":
                        want = b"start-group-1"
                        running += 1
                    else:
                        want = b"usage:"
                    ok = pump(lambda: want in out[mark:] or proc.poll() is not None)
                    if not (want in out[mark:]) and not stopped:
                        viol.append({"key": "CLI client: command not answered", "transport": kind, "script": script, "line": line, "stdout": out.decode()[-300:]})
                if not pump(lambda: proc.poll() is not None):
                    viol.append({"key": "CLI client did not terminate", "transport": kind, "script": script, "stdout": out.decode()[-300:]})
                    continue
                try:
                    out += proc.stdout.read() or b""
                except (BlockingIOError, ValueError):
                    pass
                if b"Disconnected from control server." not in out:
                    viol.append({"key": "CLI client: no disconnect message", "transport": kind, "script": script, "stdout": out.decode()[-300:]})
                loop.quiesce()
                if loop.blocked:
                    viol.append({"key": "one session blocked the event loop", "transport": kind, "script": script, "cli": True})
                if pool.num_running != running:
                    viol.append({"key": "CLI client disconnect changed the pool", "transport": kind, "script": script})
                if not stopped:
                    if task.done() or not srv.is_serving():
                        viol.append({"key": "server stopped serving after a CLI client left", "transport": kind, "script": script})
                    task.cancel()
                    loop.quiesce()
                if not task.done():
                    viol.append({"key": "every client is gone but the cancelled serving task is still pending", "transport": kind, "script": script, "cli": True})
                elif kind == "unix" and os.path.exists(path):
                    viol.append({"key": "serving task done but the unix socket file still exists", "transport": kind, "script": script, "cli": True})
                # connecting to a stopped server
                p2 = subprocess.run([sys.executable, "-m", "asyncio_taskpool.control"] + argv, input=b"", capture_output=True, timeout=30, env=env)
                if b"Connected to" in p2.stdout:
                    viol.append({"key": "address still accepts connections after stop", "transport": kind, "cli": True})
            except AssertionError as e:
                viol.append({"key": "HARNESS", "detail": str(e), "script": script})
            finally:
                try:
                    if proc is not None and proc.poll() is None:
                        proc.kill()
                    if proc is not None:
                        proc.wait(timeout=5)
                        for f in (proc.stdin, proc.stdout, proc.stderr):
                            if f:
                                f.close()
                    if task is not None and not task.done():
                        task.cancel()
                    for t in asyncio.all_tasks(loop):
                        t.cancel()
                    loop.quiesce()
                except BaseException:  # noqa: BLE001
                    pass
                events._set_running_loop(None)
                try:
                    loop.close()
                except Exception:  # noqa: BLE001
                    pass
                if os.path.exists(path):
                    os.unlink(path)
    return n, viol


def run(tier, seed):
    t0 = time.time()
    jobs = min(16, os.cpu_count() or 1)
    work = []
    for kind in ("tcp", "unix"):
        hs = list(histories(0)) + list(histories(1))
        hs += list(histories(2, max_cmds=1 if tier == "quick" else None))
        work += [(kind, hs[i::jobs], "num-running") for i in range(jobs)]
        # the stop comes 0, 1 or 2 loop iterations after serve_forever() returned (before anything else happened)
        after = [[e for e in h if e[0] != "S"] for h in list(histories(0)) + list(histories(1))]
        after = [list(x) for x in {tuple(map(tuple, h)) for h in after}]
        for early in (0, 1, 2):
            work.append((kind, after, "num-running", early))
        # one client parked in a waiting command while the other is served
        both = [h for h in histories(2) if sum(1 for _, e in h if e == "cmd") == 2]
        hw = [h for h in both if [e for c, e in h if c == 0][-1] == "close" and [e for c, e in h if c == 1][-1] == "close"]
        work += [(kind, hw[i::jobs], "wait|num-running") for i in range(jobs)]
        # a command whose optional argument carries an unbalanced quote
        work += [(kind, hw[i::jobs], "cancel 7 --msg 'tis") for i in range(jobs)]
        # both clients ask for a sub-command's help (output produced by the session's own parser objects)
        work += [(kind, hw[i::jobs], "stop -h") for i in range(jobs)]
        # ... and parked in gather-and-close (the pool's one task keeps running): a client leaving must not touch the task
        work += [(kind, hw[i::jobs], "gac|num-running") for i in range(jobs)]
        work.append(("halfclose", kind))
        if kind == "tcp":
            work.append(("twoservers",))
        if tier != "quick":
            hs2 = list(histories(1)) + list(histories(2, max_cmds=1))
            work += [(kind, hs2[i::jobs], "start 1") for i in range(jobs)]
    viols = []
    n = trans = 0
    states = set()
    ctx = mp.get_context("fork")
    with ctx.Pool(jobs) as pool:
        for k, tr, vs, st in pool.imap_unordered(_work, work, chunksize=1):
            n += k
            trans += tr
            viols += vs
            states |= st
    tmp = tempfile.mkdtemp(prefix="ctlcli")
    try:
        ncli, vcli = cli_histories(tmp)
    finally:
        shutil.rmtree(tmp, ignore_errors=True)
    viols += vcli
    harness = [v for v in viols if v["key"] == "HARNESS"]
    if harness:
        raise RuntimeError(f"harness trouble: {harness[:2]}")
    return {
        "violations": viols,
        "states": len(states),
        "transitions": trans,
        "traces": n + ncli,
        "samples": [{"transport": "unix", "history": [list(x) for x in list(histories(2, 1))[177]]}],
        "coverage": {"socket_histories": n, "cli_subprocess_histories": ncli, "clients": "0..2", "transports": ["tcp", "unix"]},
        "rule": "all interleavings of per-client lifecycles open->handshake->[command]->{close, half-close} for 0..2 raw stream clients "
                "with the stop (cancellation of the serving task) at every position, on both transports, against the real server on a "
                "hand-stepped selector loop run to quiescence between events; states = distinct (stopped, open clients, task done) "
                "abstractions visited; plus scripted histories with the bundled CLI client as a real subprocess",
        "assumptions": ["kernel delivery timing is not owned: quiescence windows (4 ms, 10x on re-run); a violation is only reported if it reproduces with 10x windows",
                        "bounds: <= 2 clients, <= 1 command each"],
        "wall": time.time() - t0,
    }


def replay(v):
    global SCALE
    if v.get("twoservers"):
        tmp = tempfile.mkdtemp(prefix="ctlsock")
        try:
            SCALE = 10.0
            viol = run_two_servers(v["twoservers"][0], v["twoservers"][1], tmp, v["twoservers"][2])
        finally:
            SCALE = 1.0
            shutil.rmtree(tmp, ignore_errors=True)
        return {"viol": repr(viol)} if viol else None
    if v.get("halfclose"):
        tmp = tempfile.mkdtemp(prefix="ctlsock")
        try:
            SCALE = 10.0
            viol = run_halfclose(v["transport"], tmp, v["halfclose"])
        finally:
            SCALE = 1.0
            shutil.rmtree(tmp, ignore_errors=True)
        return {"viol": repr(viol)} if viol else None
    if v.get("cli") or "history" not in v:
        return None
    if v.get("early_stop") is not None:
        tmp = tempfile.mkdtemp(prefix="ctlsock")
        try:
            viol, _ = run_history(v["transport"], [tuple(x) for x in v["history"]], tmp, v.get("cmd", "num-running"), early=v["early_stop"])
        finally:
            shutil.rmtree(tmp, ignore_errors=True)
        return {"viol": repr(viol)} if viol else None
    tmp = tempfile.mkdtemp(prefix="ctlsock")
    try:
        SCALE = 10.0
        viol, _ = run_history(v["transport"], [tuple(x) for x in v["history"]], tmp, v.get("cmd", "num-running"))
    finally:
        SCALE = 1.0
        shutil.rmtree(tmp, ignore_errors=True)
    return {"viol": repr(viol)} if viol else None
