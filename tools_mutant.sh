#!/bin/sh
# tools_mutant.sh <Cxx worktree id> <seeded-name> <check> [<check> ...]
# confirms an agent-made change (tests green against the worktree's own sources, demo fails with / passes without),
# stores it under seeded/<name>, runs the given checks on it
WT=/tmp/wt/$1; NAME=$2; shift 2
cd $WT || exit 2
git diff -- src > /tmp/mutant.$$.patch
[ -s /tmp/mutant.$$.patch ] || { echo "EMPTY PATCH"; exit 2; }
echo "patch: $(grep -c '^@@' /tmp/mutant.$$.patch) hunk(s) in $(grep '^+++ ' /tmp/mutant.$$.patch | tr '\n' ' ')"
T=$(PYTHONPATH=$WT/src /venv/bin/python -m pytest -q -p no:cacheprovider tests 2>&1 | tail -1); echo "tests(with change, worktree sources): $T"
PYTHONPATH=$WT/src timeout 120 /venv/bin/python demo.py >/tmp/demo_with.out 2>&1; A=$?
git apply -R /tmp/mutant.$$.patch
PYTHONPATH=$WT/src timeout 120 /venv/bin/python demo.py >/tmp/demo_without.out 2>&1; B=$?
git apply /tmp/mutant.$$.patch
echo "demo exit with change=$A without=$B"
mkdir -p /verif/seeded/$NAME
cp /tmp/mutant.$$.patch /verif/seeded/$NAME/patch.diff; cp demo.py /verif/seeded/$NAME/demo.py; cp meta.json /verif/seeded/$NAME/meta.agent.json 2>/dev/null
rm -f /tmp/mutant.$$.patch
for P in "$@"; do
  echo "--- check $P"
  SKIP_TESTS=1 /verif/selftest /verif/seeded/$NAME/patch.diff $P 2>&1 | tail -4 | cut -c1-300
done
