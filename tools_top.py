import json, sys
for p in sys.argv[1:]:
    e = json.load(open(f'/verif/evidence/{p}.json'))
    rows = sorted(e['coverage']['per_cell'], key=lambda r: -r['wall_s'])
    tot = sum(r['wall_s'] for r in rows)
    print(p, 'cells', len(rows), 'cpu_s', round(tot), 'wall', e['wall_s'], 'states', e['coverage']['states'])
    for r in rows[:8]:
        print('   %7.1fs %8d st %s %s' % (r['wall_s'], r['states'], '' if r['complete'] else 'INCOMPLETE', r['cell']))
