#!/venv/bin/python
"""tools_foreign.py [props...]: every quick cell of the given pool properties is explored (bounded number of executions)
under ALL pool monitors at once; reports violations raised by monitors that are not the cell's own - candidates for
false alarms of the thorough tier's cross grids. Development tool."""
import importlib
import multiprocessing as mp
import os
import sys
import time

sys.path.insert(0, os.path.dirname(os.path.abspath(__file__)))
from aiomc import runner  # noqa: E402

ALL = ["C01", "C02", "C03", "C04", "C05", "C07", "C08", "C10", "C11", "C12", "C13", "C14", "C15"]


def one(c):
    own = list(c["monitors"])
    c = dict(c, monitors=ALL, max_exec=int(os.environ.get("MAX_EXEC", "2500")), soft_s=None)
    r = runner.run_cell((c, 0, time.time() + 90))
    out = []
    for v in r.get("violations", []):
        if v["prop"] not in own:
            out.append((c["name"], v["prop"], v["key"], v["detail"][:160]))
    return out, r.get("error")


def main():
    props = sys.argv[1:] or runner.CROSS_PROPS
    work = []
    for p in props:
        mod = importlib.import_module(f"props.{p.lower()}")
        for c in mod.cells("quick"):
            if c.get("world", "pool") == "pool" and not c.get("own_only"):
                work.append(dict(c, name=f"[{p}] " + c["name"]))
    n = 0
    with mp.get_context("fork").Pool(int(os.environ.get("JOBS", "16"))) as pool:
        for out, err in pool.imap_unordered(one, work, chunksize=2):
            n += 1
            if err:
                print("ERROR", err, flush=True)
            for row in out:
                print("FOREIGN-VIOLATION", *row, flush=True)
    print("cells", n)


if __name__ == "__main__":
    main()
