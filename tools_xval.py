#!/venv/bin/python
"""tools_xval.py [props...]: fingerprint cross-validation sweep (development tool).

For every quick+thorough cell of the given properties whose pruned search completes within a small budget, the
unpruned bounded(1) search is run too; every state it reaches must be in the pruned search's visited set and
every terminal observation must be known.  A miss means the canonical fingerprint merges states with different
futures (an unsound abstraction) and is a bug of the machinery."""
import importlib
import multiprocessing as mp
import os
import sys
import time

sys.path.insert(0, os.path.dirname(os.path.abspath(__file__)))
from aiomc import runner  # noqa: E402


def one(args):
    c, mons = args
    c = dict(c)
    if mons:
        c["monitors"] = mons
    c.update(xval=1, xval_max_exec=6000, max_exec=4000)
    r = runner.run_cell((c, 0, time.time() + 60))
    return c["name"], c["monitors"], r.get("error"), r.get("xval"), r.get("complete")


def main():
    props = sys.argv[1:] or [f"C{i:02d}" for i in range(1, 16)]
    work = []
    for p in props:
        mod = importlib.import_module(f"props.{p.lower()}")
        seen = set()
        for tier in ("quick", "thorough"):
            for c in mod.cells(tier):
                if c["name"] in seen or c.get("world", "pool") != "pool":
                    continue
                seen.add(c["name"])
                work.append((c, None))
                # the same cell under every other monitor (what the cross grids do)
                work.append((c, ["C02", "C03", "C06", "C08", "C12", "C13", "C14", "C15"]))
    bad = done = skipped = 0
    with mp.get_context("fork").Pool(int(os.environ.get("JOBS", "8"))) as pool:
        for name, mons, err, xv, complete in pool.imap_unordered(one, work, chunksize=4):
            if err:
                bad += 1
                print("XVAL-FAIL", name, mons, err, flush=True)
            elif xv:
                done += 1
            else:
                skipped += 1
    print(f"cells cross-validated={done} skipped(too big)={skipped} failed={bad}")
    return 1 if bad else 0


if __name__ == "__main__":
    sys.exit(main())
