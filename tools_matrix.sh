#!/bin/sh
# runs every seeded change against the quick check of the property it breaks; writes seeded/RESULTS.md
OUT=/verif/seeded/RESULTS.md
echo "| seeded change | property | quick check result |" > $OUT.tmp
echo "|---|---|---|" >> $OUT.tmp
for d in /verif/seeded/*/; do
  n=$(basename $d); p=$(python3 -c "import json;print(json.load(open('$d/meta.json'))['breaks_property'])")
  r=$(SKIP_TESTS=1 /verif/selftest $d/patch.diff $p 2>/dev/null | grep -c "^VIOLATION")
  if [ "$r" -gt 0 ]; then res="VIOLATION reported"; else res="MISSED"; fi
  echo "| $n | $p | $res |" >> $OUT.tmp; echo "$n $p $res"
done
mv $OUT.tmp $OUT
