#!/bin/sh
# runs every seeded change against the quick check of the property it breaks; writes seeded/RESULTS.md and, for the
# pool properties, seeded/hot_cells.txt (the cells that reported each change; input of tools_core.py)
OUT=/verif/seeded/RESULTS.md
HOT=/verif/seeded/hot_cells.txt
echo "| seeded change | property | quick check result |" > $OUT.tmp
echo "|---|---|---|" >> $OUT.tmp
: > $HOT.tmp
for d in /verif/seeded/*/; do
  n=$(basename $d); p=$(python3 -c "import json;print(json.load(open('$d/meta.json'))['breaks_property'])")
  SKIP_TESTS=1 /verif/selftest $d/patch.diff $p > /tmp/matrix.$$.out 2>/dev/null
  r=$(grep -c "^VIOLATION" /tmp/matrix.$$.out)
  if [ "$r" -gt 0 ]; then res="VIOLATION reported"; else res="MISSED"; fi
  case $p in C16|C17|C18|C19|C20) ;; *) grep "^  cell=" /tmp/matrix.$$.out | sed "s/^  cell=//; s/ monitor=.*//" | sort -u | sed "s/^/$p\t$n\t/" >> $HOT.tmp;; esac
  echo "| $n | $p | $res |" >> $OUT.tmp; echo "$n $p $res"
done
rm -f /tmp/matrix.$$.out
mv $OUT.tmp $OUT; mv $HOT.tmp $HOT
