import asyncio, json
from asyncio_taskpool import TaskPool
from asyncio_taskpool.control.server import TCPControlServer
async def main():
    pool = TaskPool(); srv = TCPControlServer(pool, host="127.0.0.1", port=0); t = await srv.serve_forever()
    port = srv._server.sockets[0].getsockname()[1]
    r, w = await asyncio.open_connection("127.0.0.1", port)
    w.write(json.dumps({"terminal_width": 80}).encode()+b"\n"); print(await r.readline())
    w.write(b"until-closed\n"); await w.drain(); await asyncio.sleep(0.1)
    w.close(); await w.wait_closed(); await asyncio.sleep(0.1)
    t.cancel()
    try:
        await asyncio.wait_for(asyncio.shield(t), 2); print("serving task completed")
    except asyncio.TimeoutError:
        print("serving task STILL PENDING 2s after cancel although the only client has gone"); raise SystemExit(1)
asyncio.run(main())
