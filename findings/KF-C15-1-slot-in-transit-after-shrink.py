"""Plain asyncio demonstration of known finding KF-C15-1 (exits 1 while the finding exists)."""
import asyncio
from asyncio_taskpool import TaskPool


async def main():
    pool = TaskPool(pool_size=1)
    gates = {}
    started = []

    async def work(tag):
        started.append(tag)
        gates[tag] = asyncio.Event()
        await gates[tag].wait()

    g = pool.apply(work, args=("a",), num=2)          # task 0 runs, the spawner waits for room
    await asyncio.sleep(0); await asyncio.sleep(0)
    gates["a"].set()                                  # task 0 ends -> its slot is handed to the waiting spawner ...
    await asyncio.sleep(0)
    pool.pool_size = 0                                # ... the pool is shrunk to 0 in that window ...
    pool.cancel_group(g)                              # ... and the spawner's group is cancelled
    await asyncio.sleep(0)
    n0 = len(started)
    pool.apply(work, args=("b",), num=1)              # with pool_size == 0 nothing may start
    for _ in range(5):
        await asyncio.sleep(0)
    if len(started) > n0:
        print(f"pool_size={pool.pool_size} but a new task started (num_running={pool.num_running})")
        raise SystemExit(1)
    print("ok: nothing started with pool_size 0")


asyncio.run(main())
