"""A pool task that requests its own cancellation (cancel_group of its own group from its own code) and then returns
without suspending again ends in asyncio's cancelled state; gather_and_close() then raises CancelledError although
neither the caller nor any task/callback raised, and the pool stays locked but is never closed."""
import asyncio
from asyncio_taskpool import TaskPool


async def main():
    pool = TaskPool()
    go = asyncio.Event()

    async def first_wins():
        await go.wait()
        pool.cancel_group("race")  # "first result wins": cancels its siblings - and itself
        return "done"  # no further suspension

    pool.apply(first_wins, num=2, group_name="race")
    await asyncio.sleep(0)
    await asyncio.sleep(0)
    go.set()
    try:
        await asyncio.wait_for(pool.gather_and_close(), 1)
        print("gather_and_close returned normally")
        rc = 0
    except asyncio.CancelledError:
        print("gather_and_close raised CancelledError although nobody cancelled the caller; is_locked:", pool.is_locked)
        rc = 1
    try:
        pool.apply(first_wins)
    except Exception as e:
        print("later apply raises", type(e).__name__)
    return rc

raise SystemExit(asyncio.run(main()))
