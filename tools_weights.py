#!/usr/bin/env python3
"""tools_weights.py: regenerates props/weights.json (scheduling hints: states per cell) from evidence/*.json of a clean
quick run. Development tool; the checks work without the file (default weights)."""
import glob
import json
import os

out = {}
for f in sorted(glob.glob("/verif/evidence/C*.json")):
    e = json.load(open(f))
    rows = e.get("coverage", {}).get("per_cell")
    if not rows or not isinstance(rows[0], dict) or "states" not in rows[0]:
        continue
    out[e["property_id"]] = {r["cell"]: r["states"] for r in rows if r.get("complete")}
path = "/verif/props/weights.json"
old = json.load(open(path)) if os.path.exists(path) else {}
for prop, cellmap in out.items():
    old.setdefault(prop, {}).update(cellmap)  # cells left out of the quick tier keep their last measurement
json.dump(old, open(path, "w"), indent=0, sort_keys=True)
print({k: len(v) for k, v in old.items()})
