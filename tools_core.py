#!/usr/bin/env python3
"""tools_core.py: regenerates props/core_cells.json - the foreign scenarios every pool property's quick check runs
under its own monitors. Input: seeded/hot_cells.txt (which cells of the owning quick check reported which seeded
change; written by tools_matrix.sh) and props/weights.json (states per cell). Greedy cover: every seeded change of a
pool property should be reported by at least one chosen cell; cheapest cells first; cells above MAX_STATES are never
chosen. Development tool."""
import collections
import json

MAX_STATES = 6000
weights = json.load(open("/verif/props/weights.json"))
hot = collections.defaultdict(set)
for line in open("/verif/seeded/hot_cells.txt"):
    prop, mutant, cell = line.rstrip("\n").split("\t")
    if cell.startswith("[core"):
        continue
    w = weights.get(prop, {}).get(cell)
    if w is not None and w <= MAX_STATES:
        hot[mutant].add((prop, cell))
uncovered = {m for m in hot}
chosen = []
while uncovered:
    score = collections.Counter()
    for m in uncovered:
        for pc in hot[m]:
            score[pc] += 1
    # most changes covered per state explored
    best = max(score, key=lambda pc: (score[pc] / max(50, weights[pc[0]][pc[1]]), pc))
    chosen.append(best)
    uncovered = {m for m in uncovered if best not in hot[m]}
chosen.sort()
json.dump([list(x) for x in chosen], open("/verif/props/core_cells.json", "w"), indent=0)
print(len(chosen), "core cells cover", len(hot), "seeded changes; total states", sum(weights[p][c] for p, c in chosen))
