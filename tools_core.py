#!/usr/bin/env python3
"""tools_core.py: regenerates props/core_cells.json - the foreign scenarios every pool property's quick check runs
under its own monitors. Input: seeded/hot_cells.txt (which cells of the owning quick check reported which seeded
change; written by tools_matrix.sh) and props/weights.json (states per cell). Greedy cover: every seeded change of a
pool property should be reported by at least one chosen cell; cheapest cells first; cells above MAX_STATES are never
chosen. Development tool."""
import collections
import json

MAX_STATES = 6000
import importlib
import sys

sys.path.insert(0, "/verif")
weights = json.load(open("/verif/props/weights.json"))
OWN_ONLY = set()
for i in range(1, 16):
    mod = importlib.import_module(f"props.c{i:02d}")
    OWN_ONLY |= {(f"C{i:02d}", c["name"]) for c in mod.cells("quick") if c.get("own_only")}
hot = collections.defaultdict(set)
for line in open("/verif/seeded/hot_cells.txt"):
    prop, mutant, cell = line.rstrip("\n").split("\t")
    if cell.startswith("[core") or (prop, cell) in OWN_ONLY:
        continue
    w = weights.get(prop, {}).get(cell)
    if w is not None and w <= MAX_STATES:
        hot[mutant].add((prop, cell))
uncovered = {m for m in hot}
chosen = []
while uncovered:
    score = collections.Counter()
    for m in uncovered:
        for pc in hot[m]:
            score[pc] += 1
    # most changes covered per state explored
    best = max(score, key=lambda pc: (score[pc] / max(50, weights[pc[0]][pc[1]]), pc))
    chosen.append(best)
    uncovered = {m for m in uncovered if best not in hot[m]}
chosen.sort()
json.dump([list(x) for x in chosen], open("/verif/props/core_cells.json", "w"), indent=0)
print(len(chosen), "core cells cover", len(hot), "seeded changes; total states", sum(weights[p][c] for p, c in chosen))
